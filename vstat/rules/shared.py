"""Rules shared by several properties (helpers the anchored code relies on)."""
import ast

from ..index import u, call_name, call_attr, walk_local, base_name, FUNC_TYPES
from .. import flow
from ..fold import try_fold
from ..util import stmts_with_env, calls_with_env, assignments_to, single_def, kwarg, param_names, param_defaults
from .common import method, unconditional_in, atom_text

# --------------------------------------------------------------------------
# TRUTHY: a value whose domain includes 0 / '' must not be defaulted with `or`
# nor tested by truthiness where "is None" is meant.

ZERO_LEGIT_KEYS = {'resid', '_old_resid', 'atomid', 'order', 'charge', 'charge_group', 'mass', 'index', 'res_min_dist', 'bond_type',
                   'minimum_force', 'lower_bound', 'upper_bound', 'decay_factor', 'decay_power', 'base_constant', 'level', 'weight'}
ZERO_LEGIT_NAME_PARTS = ('resid', 'order', 'atomid', 'idx', 'index')

# truthiness uses that are about strings / lists, confirmed by reading: (module, function, text of the tested expression)
TRUTHY_TRIAGE = {
    ('vermouth/processors/annotate_mut_mod.py', 'parse_residue_spec', 'resid'): 'resid is the list / string cut from the specification text, not a number',
    ('vermouth/pdb/pdb.py', 'PDBParser._atom', 'charge'): 'charge is the two-character string read from the record',
    ('vermouth/pdb/pdb.py', 'write_pdb_string', 'charge'): 'a zero charge is written as blank, by the format',
    ('vermouth/map_parser.py', 'MappingDirector._mapping', 'weight'): 'weight is a (possibly empty) list of tokens',
}


def _zero_legit(e):
    if isinstance(e, ast.Call) and isinstance(e.func, ast.Attribute) and e.func.attr == 'get' and len(e.args) == 1 and not e.keywords:
        return True                      # x.get(k) or D swallows 0 / '' / False whatever k is
    if isinstance(e, ast.Call) and isinstance(e.func, ast.Attribute) and e.func.attr == 'get' and e.args and isinstance(e.args[0], ast.Constant) \
            and e.args[0].value in ZERO_LEGIT_KEYS and len(e.args) == 2 and try_fold(e.args[1], default=0) is None:
        return True
    if isinstance(e, ast.Subscript) and isinstance(e.slice, ast.Constant) and e.slice.value in ZERO_LEGIT_KEYS:
        return True
    if isinstance(e, ast.Attribute) and e.attr in ZERO_LEGIT_KEYS:
        return True
    # (`idx_to_nodenum`, `name_to_idx` are tables, not an index)
    if isinstance(e, ast.Name) and '_to_' not in e.id and (e.id in ZERO_LEGIT_KEYS or any(e.id == p or e.id.startswith(p + '_') or e.id.endswith('_' + p) for p in ZERO_LEGIT_NAME_PARTS)):
        return True
    return False


def _key_domain_has_zero_legit(module, fn, key):
    """`key` is a loop / comprehension variable ranging over a constant collection that contains an attribute for which 0 is legitimate."""
    if isinstance(key, ast.Constant):
        return key.value in ZERO_LEGIT_KEYS
    if not isinstance(key, ast.Name):
        return False
    for node in ast.walk(fn):
        gens = node.generators if isinstance(node, (ast.ListComp, ast.SetComp, ast.DictComp, ast.GeneratorExp)) else [node] if isinstance(node, ast.For) else []
        for g in gens:
            if isinstance(g.target, ast.Name) and g.target.id == key.id:
                dom = try_fold(g.iter, module=module, default=None) if 'module' in try_fold.__code__.co_varnames else try_fold(g.iter, default=None)
                if isinstance(dom, (list, tuple, set, frozenset, dict)) and any(k in ZERO_LEGIT_KEYS for k in dom if isinstance(k, str)):
                    return True
    return False


def truthy_zero(ck, rels, rule='TRUTHY-zero'):
    """No `value or default` / bare truthiness test on a value for which 0 is legitimate."""
    n = 0
    for rel in rels:
        module = ck.index.mod(rel)
        for qual, fn in module.functions.items():
            for node in walk_local(fn):
                hits = []
                if isinstance(node, ast.BoolOp) and isinstance(node.op, ast.Or) and _zero_legit(node.values[0]):
                    parent, child = module.parent.get(id(node)), node
                    while isinstance(parent, (ast.BoolOp, ast.UnaryOp)) and not (isinstance(parent, ast.UnaryOp) and not isinstance(parent.op, ast.Not)):
                        parent, child = module.parent.get(id(parent)), parent
                    in_test = isinstance(parent, (ast.If, ast.While, ast.IfExp)) and parent.test is child
                    only_get = isinstance(node.values[0], ast.Call) and len(node.values[0].args) == 1 and \
                        not (isinstance(node.values[0].args[0], ast.Constant) and node.values[0].args[0].value in ZERO_LEGIT_KEYS)
                    if not (in_test and only_get):
                        hits.append(('or-default', node.values[0]))
                tests = []
                if isinstance(node, (ast.If, ast.While, ast.IfExp)):
                    tests.append(node.test)
                if isinstance(node, ast.UnaryOp) and isinstance(node.op, ast.Not):
                    tests.append(node.operand)
                if isinstance(node, ast.BoolOp) and isinstance(node.op, ast.And):
                    tests += node.values
                if isinstance(node, ast.comprehension):
                    tests += node.ifs
                # `if (x := d.get(k)):` -- the name that is bound is what the truthiness decides about
                tests = [ast.copy_location(ast.Name(id=t.target.id, ctx=ast.Load()), t) if isinstance(t, ast.NamedExpr) and isinstance(t.target, ast.Name) else t for t in tests]
                for t in tests:
                    if _zero_legit(t) and not (isinstance(t, ast.Call) and len(t.args) == 1):
                        hits.append(('truthiness', t))
                    elif _zero_legit(t) and isinstance(t, ast.Call) and len(t.args) == 1 and _key_domain_has_zero_legit(module, fn, t.args[0]):
                        hits.append(('truthiness', t))
                    elif isinstance(t, ast.Subscript) and not isinstance(t.slice, ast.Constant) and _key_domain_has_zero_legit(module, fn, t.slice):
                        hits.append(('truthiness', t))
                for kind, expr in hits:
                    n += 1
                    reason = TRUTHY_TRIAGE.get((rel, qual, u(expr)))
                    ck.ob(rule, module.loc(node), reason is not None,
                          '{}: `{}` decides by {} a value for which 0 (or an empty value) is legitimate{}'.format(
                              qual, u(node)[:80].replace('\n', ' '), 'an `or` default' if kind == 'or-default' else 'truthiness',
                              ' -- triaged: ' + reason if reason else ': 0 would be treated like "absent"'),
                          key='{}|{}|{}|{}'.format(rule, rel, qual, u(expr)[:50]))
    ck.extra.setdefault('truthy_sites', 0)
    ck.extra['truthy_sites'] += n
    # the rule is allowed to have zero instances; keep a positive example in the self-test variants
    ck.ob(rule, ','.join(rels), True, 'truthiness lint ran over {} ({} triaged site(s))'.format(', '.join(rels), n), key=rule + '|ran|' + ','.join(rels))


# --------------------------------------------------------------------------
def no_monomorphism(ck, rels, rule='WMC-induced'):
    """Placements are induced subgraph isomorphisms: no monomorphism matcher call."""
    bad = []
    nmatch = 0
    for rel in rels:
        module = ck.index.mod(rel)
        for c in ast.walk(module.tree):
            if isinstance(c, ast.Call):
                a = call_attr(c) or ''
                if 'monomorph' in a:
                    bad.append(module.loc(c) + ' ' + a)
                if a in ('subgraph_isomorphisms_iter', 'subgraph_is_isomorphic', 'isomorphisms_iter'):
                    nmatch += 1
    ck.ob(rule, ','.join(rels), not bad, 'matching is induced (subgraph isomorphism, {} call(s)); monomorphism calls: {}'.format(nmatch, bad or 'none'),
          key=rule + '|no-monomorphism|' + ','.join(rels))


# --------------------------------------------------------------------------
def merge_winner(expr, fn=None):
    """Who wins on a key collision in a dict-merge expression: returns
    (winner text, loser text) or None when the shape is not recognised."""
    e = expr
    if isinstance(e, ast.Call) and call_name(e) == 'dict' and len(e.args) == 1 and not e.keywords:
        e = e.args[0]
    if isinstance(e, ast.Call) and (call_name(e) or '').endswith('ChainMap') and len(e.args) == 2:
        return u(e.args[0]), u(e.args[1])            # first mapping wins
    if isinstance(expr, ast.Call) and call_name(expr) == 'dict' and len(expr.args) == 1 and len(expr.keywords) == 1 and expr.keywords[0].arg is None:
        return u(expr.keywords[0].value), u(expr.args[0])      # dict(a, **b): b wins
    if isinstance(expr, ast.Dict) and len(expr.keys) == 2 and all(k is None for k in expr.keys):
        return u(expr.values[1]), u(expr.values[0])            # {**a, **b}: b wins
    return None


def precedence(ck, module, fn, target, specific, general, what, key, rule='PREC-specific-wins'):
    """The value assigned to `target` merges `specific` over `general` (the
    specific one wins on a collision)."""
    defs = [v for v in assignments_to(fn, target)]
    ok = False
    detail = 'merge of `{}` and `{}` into `{}` not found'.format(specific, general, target)
    for v in defs:
        w = merge_winner(v)
        if w is not None and {w[0], w[1]} == {specific, general} or (w is not None and specific in w[0] + w[1] and general in w[0] + w[1]):
            ok = specific in w[0] and general in w[1]
            detail = '`{}`: on a key collision `{}` wins'.format(u(v)[:80], w[0])
    if not ok and not any(merge_winner(v) for v in defs):
        # copy-then-update idiom: target = general.copy(); target.update(specific)
        cp = [v for v in defs if isinstance(v, ast.Call) and call_attr(v) == 'copy' and general in u(v.func.value)]
        up = [c for c in walk_local(fn) if isinstance(c, ast.Call) and call_attr(c) == 'update' and u(c.func.value) == target and c.args and specific in u(c.args[0])]
        if cp and up:
            ok = True
            detail = '`{} = {}.copy(); {}.update({})`: the update wins'.format(target, general, target, specific)
    if not ok:
        # the merge written as one expression under another (or no) intermediate name: any assignment of the function that merges exactly these two
        found = [(st, merge_winner(st.value)) for st in walk_local(fn) if isinstance(st, ast.Assign) and merge_winner(st.value) is not None]
        found = [(st, w) for st, w in found if {w[0], w[1]} == {specific, general}]
        if len(found) == 1:
            ok = found[0][1][0] == specific
            detail = '`{}`: on a key collision `{}` wins'.format(u(found[0][0])[:80], found[0][1][0])
    ck.analysed(module, fn)
    ck.ob(rule, module.loc(fn), ok, '{}: {}'.format(what, detail), key=key)


# --------------------------------------------------------------------------
def pure_writer(ck, module, fn, params, rule='PURE-writer'):
    """A writer does not modify the object it writes: no store / augmented
    store / mutating call whose base is (an alias of) the written parameter."""
    aliases = set(params)
    for _ in range(3):
        for node in walk_local(fn):
            if isinstance(node, ast.Assign) and isinstance(node.targets[0], ast.Name):
                v = node.value
                # x = param.attr / param.attr[...] / param : an alias of (part of) the object; copies are not
                if isinstance(v, (ast.Attribute, ast.Subscript, ast.Name)) and base_name(v) in aliases and not isinstance(v, ast.Call):
                    aliases.add(node.targets[0].id)
            if isinstance(node, ast.For):
                # `for molecule in system.molecules`, `for i, molecule in enumerate(system.molecules)`, `for idx in molecule.sorted_nodes`: what the loop hands out
                # is part of the written object
                its = [node.iter]
                if isinstance(node.iter, ast.Call) and call_name(node.iter) in ('enumerate', 'zip', 'sorted', 'list', 'reversed', 'tuple'):
                    its = list(node.iter.args)
                if any(isinstance(i_, (ast.Attribute, ast.Subscript, ast.Name)) and base_name(i_) in aliases for i_ in its):
                    for t in ast.walk(node.target):
                        if isinstance(t, ast.Name):
                            aliases.add(t.id)
    bad = []
    for node in walk_local(fn):
        if isinstance(node, (ast.Subscript, ast.Attribute)) and isinstance(node.ctx, (ast.Store, ast.Del)) and base_name(node) in aliases:
            bad.append(u(module.stmt_of(node))[:70])
        elif isinstance(node, ast.AugAssign) and base_name(node.target) in aliases:
            bad.append(u(node)[:70])
        elif isinstance(node, ast.Call) and isinstance(node.func, ast.Attribute) and node.func.attr in flow.MUTATOR_METHODS | {'move_to_end'} \
                and base_name(node.func.value) in aliases and not isinstance(node.func.value, ast.Name) or \
                (isinstance(node, ast.Call) and isinstance(node.func, ast.Attribute) and node.func.attr in flow.MUTATOR_METHODS and
                 isinstance(node.func.value, ast.Name) and node.func.value.id in aliases - set(params)):
            bad.append(u(node)[:70])
    ck.analysed(module, fn)
    ck.ob(rule, module.loc(fn), not bad, '{} leaves the object it writes unchanged (aliases followed: {}){}'.format(
        fn.name, sorted(aliases), '; modifies: ' + '; '.join(sorted(set(bad))) if bad else ''), key='{}|{}'.format(rule, fn.name))


# --------------------------------------------------------------------------
def partition_graph_rule(ck, rule='DT-partition-edges'):
    """graph_utils.partition_graph: an edge of the coarse graph exists exactly
    for pairs of partitions joined by at least one edge of the fine graph."""
    gu = ck.index.mod('vermouth/graph_utils.py')
    fn = gu.func('partition_graph')
    ck.analysed(gu, fn)
    loops = [n for n in fn.body if isinstance(n, ast.For) and u(n.iter) in ('graph.edges', 'graph.edges()')]
    ok = len(loops) == 1
    detail = 'loop over graph.edges not found'
    if ok:
        lp = loops[0]
        adds = stmts_with_env(fn, lambda s: isinstance(s, ast.Expr) and call_attr(s.value) == 'add_edge', stmts=lp.body)
        i, j = [u(e) for e in lp.target.elts]
        cond_any = flow.OR(*[c for s, c, e in adds]) if adds else False
        names = {}
        for k in flow.atoms_of(cond_any):
            if k[0] == 'Eq' and set(k[1:]) == {'mapping[{}]'.format(i), 'mapping[{}]'.format(j)}:
                names[k] = 'SAMEPART'
            elif k[0] == 'truth' and 'has_edge(' in k[1]:
                names[k] = 'HAS'
        f = flow.rename(cond_any, names)
        ok = flow.equivalent(f, flow.parse_formula('not SAMEPART'))[0] and len(adds) == 2
        ends_ok = all(sorted(u(flow.subst(a, e)) for a in s.value.args[:2]) == sorted(['mapping[{}]'.format(i), 'mapping[{}]'.format(j)]) for s, c, e in adds)
        ok = ok and ends_ok
        detail = 'add_edge reached under {}; ends map both nodes through the partition table: {}'.format(flow.show(f)[:80], ends_ok)
    ck.ob(rule, gu.loc(fn), ok, 'every fine edge between two different partitions yields (or merges into) a coarse edge between them, nothing else does: ' + detail,
          key=rule + '|partition_graph')
    # (as one `mapping.update({node: idx for node in part})` or as a loop storing `mapping[node] = idx` for every node of the part, unconditionally)
    # the coarse nodes are numbered by the lowest node key of their partition (input order): iter_residues, and with it "the k-th residue", rests on this
    pdefs_ = [v for v in assignments_to(fn, param_names(fn)[1])]
    ck.ob(rule, gu.loc(fn), len(pdefs_) == 1 and isinstance(pdefs_[0], ast.Call) and call_name(pdefs_[0]) == 'sorted' and u(kwarg(pdefs_[0], 'key')) == 'min' and
          u(pdefs_[0].args[0]) == param_names(fn)[1] and kwarg(pdefs_[0], 'reverse') is None,
          'the partitions are put in the order of their lowest node key before they are numbered (`{}`)'.format(u(pdefs_[0])[:60] if pdefs_ else 'not sorted'),
          key=rule + '|partition-order')
    mp = [s for s in ast.walk(fn) if isinstance(s, ast.Expr) and call_attr(s.value) == 'update' and u(s.value.func.value) == 'mapping']
    ok_map = len(mp) == 1 and 'for node_idx in node_idxs' in u(mp[0]) and 'node_idx: idx' in u(mp[0])
    if not mp:
        st_ = [(s, l) for l in ast.walk(fn) if isinstance(l, ast.For) for s in l.body if isinstance(s, ast.Assign) and len(s.targets) == 1 and
               isinstance(s.targets[0], ast.Subscript) and u(s.targets[0].value) == 'mapping' and u(s.targets[0].slice) == u(l.target)]
        ok_map = len(st_) == 1 and u(st_[0][1].iter) == 'node_idxs' and u(st_[0][0].value) == 'idx' and len(st_[0][1].body) == 1
    ck.ob(rule, gu.loc(fn), ok_map, 'every node of every partition is entered in the node -> partition table', key=rule + '|mapping')


# --------------------------------------------------------------------------
# STATE: results must not depend on what an object or module remembers from an
# earlier call.  Inventory of today's state writers (confirmed by reading); a
# new writer of module-/class-level containers or of instance attributes outside
# __init__ is reported.
SHARED_STATE_ALLOWED = {
    ('vermouth/file_writer.py', 'Singleton._instances'): 'the singleton registry of the deferred writer',
    ('vermouth/forcefield.py', '_FORCE_FIELDS'): 'cache of the shipped force fields (identity-compared singletons)',
}
INSTANCE_STATE_ALLOWED = {
    'vermouth/ffinput.py': {'FFDirector.parse_header': {'section'}, 'FFDirector._new_block': {'current_block'}, 'FFDirector._new_link': {'current_link'},
                            'FFDirector._new_modification': {'current_modification'}},
    'vermouth/ismags.py': {'ISMAGS._sgn_partitions': {'_sgn_partitions_'}, 'ISMAGS._sge_partitions': {'_sge_partitions_'}, 'ISMAGS._gn_partitions': {'_gn_partitions_'},
                           'ISMAGS._ge_partitions': {'_ge_partitions_'}, 'ISMAGS._sgn_colors': {'_sgn_colors_'}, 'ISMAGS._sge_colors': {'_sge_colors_'},
                           'ISMAGS._gn_colors': {'_gn_colors_'}, 'ISMAGS._ge_colors': {'_ge_colors_'}, 'ISMAGS._node_compatibility': {'_node_compat_'},
                           'ISMAGS._edge_compatibility': {'_edge_compat_'}},
    'vermouth/map_parser.py': {'MappingBuilder.reset': {'blocks_from', 'blocks_to', 'ff_from', 'ff_to', 'mapping', 'names', 'references'},
                               'MappingBuilder.to_ff': {'ff_to'}, 'MappingBuilder.from_ff': {'ff_from'}, 'MappingBuilder.add_block_from': {'blocks_from'},
                               'MappingBuilder.add_block_to': {'blocks_to'}, 'MappingBuilder.add_node_from': {'blocks_from'}, 'MappingBuilder.add_node_to': {'blocks_to'},
                               'MappingDirector._reset_mapping': {'_current_id', 'ff', 'identifiers'}},
    'vermouth/molecule.py': {'Molecule.add_node': {'max_node'}, 'Molecule.merge_molecule': {'max_node', 'nrexcl'}},
    'vermouth/parser_utils.py': {'SectionLineParser.finalize': {'macros', 'section'}, 'SectionLineParser.parse_header': {'section'}},
    'vermouth/system.py': {'System.add_molecule': {'force_field'}},
    'vermouth/gmx/itp_read.py': {'ITPDirector.parse_pragma': {'current_meta'}, 'ITPDirector.parse_header': {'section'},
                                 'ITPDirector.finalize_section': {'current_atom_names'}, 'ITPDirector._new_block': {'current_block'}},
    'vermouth/gmx/rtp.py': {'_IterRTPSubsectionLines.__next__': {'running'}, '_IterRTPSubsections.__next__': {'current_subsection', 'running'},
                            '_IterRTPSections.__next__': {'current_section'}},
    'vermouth/pdb/pdb.py': {'PDBParser.model': {'_skipahead'}, 'PDBParser._finish_molecule': {'active_molecule'}},
    'vermouth/processors/water_bias.py': {'ComputeWaterBias.run_system': {'system'}},
    'vermouth/rcsu/go_pipeline.py': {'GoProcessorPipeline.run_system': {'kwargs'}},
    'vermouth/rcsu/go_structure_bias.py': {'ComputeStructuralGoBias.run_molecule': {'res_graph'}, 'ComputeStructuralGoBias.run_system': {'system'}},
    'vermouth/rcsu/go_vs_includes.py': {'VirtualSiteCreator.run_system': {'system'}},
}


# container attributes created in __init__ today (all classes of the anchored modules); each is the object's working state by design:
# parsers accumulate what they read, Molecule/System/ForceField are containers, AnnotateMutMod holds its requests and its per-request report
INIT_CONTAINERS_ALLOWED = {
    'vermouth/citation_parser.py': {'BibTexDirector': {'citations', 'known_entries'}},
    'vermouth/ffinput.py': {'FFDirector': {'blocks', 'links', 'modifications', 'citations', 'header_actions'}},
    'vermouth/file_writer.py': {'DeferredFileWriter': {'open_files'}},
    'vermouth/forcefield.py': {'ForceField': {'blocks', 'links', 'modifications', 'renamed_residues', 'variables', 'citations'}},
    'vermouth/ismags.py': {'ISMAGS': {'_sgn_partitions_', '_gn_partitions_', '_node_compat_', '_sge_partitions_', '_ge_partitions_', '_edge_compat_'}},
    'vermouth/log_helpers.py': {'CountingHandler': {'counts'}},
    'vermouth/molecule.py': {'Molecule': {'interactions', 'citations', 'log_entries'}, 'Block': {'_apply_to_all_interactions'}, 'Link': {'_apply_to_all_nodes'}},
    'vermouth/parser_utils.py': {'SectionLineParser': {'macros', 'section'}},
    'vermouth/system.py': {'System': {'molecules', 'gmx_topology_params', 'go_params', 'meta'}},
    'vermouth/gmx/itp_read.py': {'ITPDirector': {'blocks', 'header_actions', 'current_atom_names'}},
    'vermouth/gmx/rtp.py': {'_IterRTPSubsections': {'buffer'}, '_IterRTPSections': {'buffer'}},
    'vermouth/pdb/pdb.py': {'PDBParser': {'molecules', '_conects', 'cryst'}},
    'vermouth/processors/annotate_mut_mod.py': {'AnnotateMutMod': {'resspec_counts', 'modifications', 'mutations'}},
    'vermouth/rcsu/go_pipeline.py': {'GoProcessorPipeline': {'kwargs'}},
    'vermouth/rcsu/go_structure_bias.py': {'ComputeStructuralGoBias': {'__chain_id_to_resnode'}},
}


def _is_container(v):
    return isinstance(v, (ast.Dict, ast.List, ast.Set)) or (isinstance(v, ast.Call) and call_name(v) in flow.CONTAINER_CALLS | {'set', 'dict', 'list'})


def no_new_state(ck, rels, rule='STATE-no-memory'):
    nmod = ninst = 0
    for rel in rels:
        m = ck.index.mod(rel)
        cands = {}
        for st in m.tree.body:
            if isinstance(st, ast.Assign) and isinstance(st.targets[0], ast.Name) and _is_container(st.value):
                cands[st.targets[0].id] = st
        for cname, c in m.classes.items():
            for st in c.body:
                if isinstance(st, ast.Assign) and isinstance(st.targets[0], ast.Name) and _is_container(st.value):
                    cands[cname + '.' + st.targets[0].id] = st
        # a container an object creates for itself and then fills (or hands to a callee) after construction is memory across the calls made on that object
        for cname, c in m.classes.items():
            init = [it for it in c.body if isinstance(it, ast.FunctionDef) and it.name == '__init__']
            if not init:
                continue
            made = {}
            for st in ast.walk(init[0]):
                if isinstance(st, ast.Assign) and isinstance(st.targets[0], ast.Attribute) and u(st.targets[0].value) == 'self' and _is_container(st.value):
                    made[st.targets[0].attr] = st
            for attr, st in made.items():
                if attr in INIT_CONTAINERS_ALLOWED.get(rel, {}).get(cname, set()):
                    continue
                text = 'self.' + attr
                used = []
                for it in c.body:
                    if not isinstance(it, ast.FunctionDef) or it.name == '__init__':
                        continue
                    for n in ast.walk(it):
                        if isinstance(n, (ast.Subscript, ast.Attribute)) and isinstance(n.ctx, (ast.Store, ast.Del)) and u(n).startswith(text) and u(n) != text:
                            used.append('{}: store `{}`'.format(it.name, u(n)[:40]))
                        elif isinstance(n, ast.Call) and isinstance(n.func, ast.Attribute) and n.func.attr in flow.MUTATOR_METHODS and u(n.func.value).startswith(text):
                            used.append('{}: `{}`'.format(it.name, u(n)[:40]))
                        elif isinstance(n, ast.Call) and any(u(a) == text for a in list(n.args) + [k.value for k in n.keywords]):
                            used.append('{}: handed to `{}`'.format(it.name, u(n.func)[:40]))
                ninst += 1
                ck.ob(rule, m.loc(st), not used, '{}.__init__ creates the container `{}`{}'.format(
                    cname, text, '; it is only read afterwards' if not used else ' and it is filled / handed on after construction ({}): content survives from one call on the object to the next'.format('; '.join(used[:3]))),
                    key='{}|init-container|{}|{}|{}'.format(rule, rel, cname, attr))
        for qual, fn in m.functions.items():
            # a memoising decorator is memory that survives between calls
            for dec in getattr(fn, 'decorator_list', []):
                dn = u(dec.func) if isinstance(dec, ast.Call) else u(dec)
                if dn.split('.')[-1] in ('lru_cache', 'cache', 'cached_property', 'memoize', 'memoized'):
                    nmod += 1
                    ck.ob(rule, m.loc(fn), False, '{} is memoised with @{}: results are remembered across calls (arguments that are mutable objects, or state read besides the '
                          'arguments, make the cached result stale)'.format(qual, dn), key='{}|memoised|{}|{}'.format(rule, rel, qual))
            # a mutable default argument that the function writes into is memory shared by all calls
            a_ = fn.args
            pos_ = a_.posonlyargs + a_.args
            pairs_ = list(zip(pos_[len(pos_) - len(a_.defaults):], a_.defaults)) + [(p_, d_) for p_, d_ in zip(a_.kwonlyargs, a_.kw_defaults) if d_ is not None]
            mutated_ = flow.mutated_names(fn)
            for p_, d_ in pairs_:
                if _is_container(d_):
                    nmod += 1
                    ck.ob(rule, m.loc(fn), p_.arg not in mutated_, '{}: the mutable default of parameter `{}` (`{}`) is {}'.format(
                        qual, p_.arg, u(d_)[:40], 'only read' if p_.arg not in mutated_ else 'written into: it then carries content from one call to the next'),
                        key='{}|default|{}|{}|{}'.format(rule, rel, qual, p_.arg))
            own_locals = {n.id for n in walk_local(fn) if isinstance(n, ast.Name) and isinstance(n.ctx, ast.Store)}
            # a local that is just another name for a module- / class-level container
            aliases = {}
            for n in walk_local(fn):
                if isinstance(n, ast.Assign) and len(n.targets) == 1 and isinstance(n.targets[0], ast.Name) and isinstance(n.value, ast.Name) and n.value.id in cands \
                        and n.value.id not in own_locals:
                    aliases[n.targets[0].id] = n.value.id
            for n in walk_local(fn):
                tgt = None
                if isinstance(n, (ast.Subscript, ast.Attribute)) and isinstance(n.ctx, (ast.Store, ast.Del)):
                    tgt = n
                elif isinstance(n, ast.Call) and isinstance(n.func, ast.Attribute) and n.func.attr in flow.MUTATOR_METHODS:
                    tgt = n.func.value
                elif isinstance(n, ast.AugAssign) and isinstance(n.target, ast.Name) and n.target.id in aliases:
                    tgt = n.target          # `alias += [...]` extends the shared list / set / dict in place
                elif isinstance(n, ast.Global):
                    for g in n.names:
                        nmod += 1
                        reason = SHARED_STATE_ALLOWED.get((rel, g))
                        ck.ob(rule, m.loc(n), reason is not None, '{} rebinds the module-level name `{}`{}'.format(
                            qual, g, ' -- allowed: ' + reason if reason else ': module-level state that survives between calls'), key='{}|module|{}|{}'.format(rule, rel, g))
                if tgt is None:
                    continue
                b = base_name(tgt)
                t = u(tgt)
                if b in aliases:
                    nmod += 1
                    reason = SHARED_STATE_ALLOWED.get((rel, aliases[b]))
                    ck.ob(rule, m.loc(n), reason is not None, '{} writes into the shared container `{}` through its local name `{}`{}'.format(
                        qual, aliases[b], b, ' -- allowed: ' + reason if reason else ': module-level state that survives between calls'),
                        key='{}|module|{}|{}|{}'.format(rule, rel, aliases[b], qual))
                    continue
                for c in cands:
                    short = c.split('.')[-1]
                    hit = (b == c and c not in own_locals) or ('.' in c and b in ('self', 'cls', c.split('.')[0]) and
                                                               (t.startswith('self.' + short) or t.startswith('cls.' + short) or t.startswith(c)))
                    if hit:
                        nmod += 1
                        reason = SHARED_STATE_ALLOWED.get((rel, c))
                        ck.ob(rule, m.loc(n), reason is not None, '{} writes into the shared container `{}`{}'.format(
                            qual, c, ' -- allowed: ' + reason if reason else ': state shared between calls / instances'), key='{}|shared|{}|{}'.format(rule, rel, c))
            if '.' in qual and not qual.endswith('__init__'):
                stores = {n.attr for n in walk_local(fn) if isinstance(n, ast.Attribute) and isinstance(n.ctx, ast.Store)
                          and isinstance(n.value, ast.Name) and n.value.id == 'self'}
                allowed = INSTANCE_STATE_ALLOWED.get(rel, {}).get(qual, set())
                extra = stores - allowed
                if stores:
                    ninst += 1
                    ck.ob(rule, m.loc(fn), not extra,
                          '{} stores instance state {} outside __init__{}'.format(qual, sorted(stores), '' if not extra else
                                                                                  ': {} is new state that a later call on the same object would see'.format(sorted(extra))),
                          key='{}|instance|{}|{}'.format(rule, rel, qual))
    ck.ob(rule, ','.join(rels), True, 'state lint ran over {} ({} shared-container writer(s), {} method(s) with instance state, all in the inventory)'.format(
        ', '.join(rels), nmod, ninst), key=rule + '|ran|' + ','.join(rels))


# ----------------------------------------------------------------------------------------------------------------------
# ARG-binding: an argument that carries the name of one of the callee's parameters is bound to that parameter
ARG_DROP_TRIAGE = {
    ('vermouth/gmx/topology.py', 'write_gmx_topology', 'write_molecule_itp', 'moltype'):
        'the caller\'s `moltype` is molecule.meta[\'moltype\'], which is exactly what the callee\'s default (None) falls back to',
    ('vermouth/processors/make_bonds.py', 'make_bonds', '_bonds_from_distance', 'non_edges'):
        'the per-residue fall-back pass is for residues without a usable reference block: there are no block non-bonds for it, the accumulated set belongs to the system-wide pass',
}
ARG_DROP_CALLEE_EXEMPT = {
    'format_atom_string': 'its keyword parameters are place-holders that the node\'s own attributes override (`defaults.update(node)`); callers pass the node',
}
ARG_TRIAGE = {
    # (caller file, caller function, callee, argument name): reason -- sites where a same-named value is deliberately handed to another parameter
}


def _callee_table(index):
    """{simple name: [(module, qualname, FunctionDef)]} for every function / method of the analysed program."""
    table = {}
    for module, qual, fn in index.all_functions():
        table.setdefault(qual.split('.')[-1], []).append((module, qual, fn))
    return table


def _positional_params(fn, bound):
    params = [a.arg for a in fn.args.posonlyargs + fn.args.args]
    if bound and params and params[0] in ('self', 'cls'):
        params = params[1:]
    return params


def arg_binding(ck, rels, rule='ARG-binding'):
    """For every call in `rels` whose callee resolves to exactly one function of the program (same module first, then
    unique simple name): a positional argument that is a plain name (or `obj.name`) equal to the name of a parameter of
    the callee must sit at that parameter's position.  Catches transposed arguments; says nothing about other calls."""
    index = ck.index
    table = _callee_table(index)
    resolved = samename = dropped = 0
    for rel in rels:
        module = index.mod(rel)
        for call in [n for n in ast.walk(module.tree) if isinstance(n, ast.Call)]:
            if any(isinstance(a, ast.Starred) for a in call.args) or not (call.args or call.keywords):
                continue
            func = call.func
            bound = False
            name = None
            if isinstance(func, ast.Name):
                name = func.id
            elif isinstance(func, ast.Attribute):
                name = func.attr
                bound = not (isinstance(func.value, ast.Name) and func.value.id in module.imports)
            cands = table.get(name, [])
            if isinstance(func, ast.Name):
                same = [c for c in cands if c[0] is module and '.' not in c[1]]
                cands = same or [c for c in cands if '.' not in c[1] and name in module.imports]
                bound = False
            elif isinstance(func, ast.Attribute) and isinstance(func.value, ast.Name) and func.value.id in ('self', 'cls'):
                cls = module.enclosing(call, (ast.ClassDef,))
                cands = [c for c in cands if c[0] is module and cls is not None and c[1] == cls.name + '.' + name]
                bound = True
            else:
                # module.function(...) or object.method(...): only when the simple name is unique in the program
                cands = cands if len(cands) == 1 else []
                if cands:
                    is_method = '.' in cands[0][1]
                    bound = is_method and not any(isinstance(d, ast.Name) and d.id == 'staticmethod' for d in cands[0][2].decorator_list)
                    if not is_method and not (isinstance(func.value, (ast.Name, ast.Attribute)) and base_name(func.value) in module.imports):
                        cands = []
            if len(cands) != 1:
                continue
            cmod, qual, fn = cands[0]
            if isinstance(fn, ast.ClassDef):
                continue
            params = _positional_params(fn, bound)
            allp = set(params) | {a.arg for a in fn.args.kwonlyargs}
            resolved += 1
            for pos, arg in enumerate(call.args):
                aname = arg.id if isinstance(arg, ast.Name) else arg.attr if isinstance(arg, ast.Attribute) else None
                if aname is None or aname not in allp:
                    continue
                samename += 1
                want = params.index(aname) if aname in params else None
                caller = module.enclosing_function(call)
                cname = module.qualname_of(caller) if caller is not None else '<module>'
                if (rel, cname, qual, aname) in ARG_TRIAGE:
                    ck.note('{}: argument {} of {}() triaged: {}'.format(module.loc(call), aname, qual, ARG_TRIAGE[(rel, cname, qual, aname)]))
                    continue
                ck.ob(rule, module.loc(call), want == pos,
                      '{}(): the value named `{}` is passed as parameter `{}`'.format(qual, aname, params[pos] if pos < len(params) else '*args') +
                      ('' if want == pos else ' -- the callee has a parameter `{}` at position {}: transposed arguments'.format(aname, want)),
                      key='{}|{}|{}|{}'.format(rule, cname, qual, aname))
            for kw in call.keywords:
                arg = kw.value
                aname = arg.id if isinstance(arg, ast.Name) else arg.attr if isinstance(arg, ast.Attribute) else None
                if kw.arg is None or aname is None or aname not in allp:
                    continue
                samename += 1
                caller = module.enclosing_function(call)
                cname = module.qualname_of(caller) if caller is not None else '<module>'
                if (rel, cname, qual, aname) in ARG_TRIAGE:
                    continue
                ck.ob(rule, module.loc(call), kw.arg == aname, '{}(): the value named `{}` is passed as keyword `{}`'.format(qual, aname, kw.arg) +
                      ('' if kw.arg == aname else ' -- the callee has a parameter `{}` of its own: crossed keywords'.format(aname)),
                      key='{}|{}|{}|kw-{}'.format(rule, cname, qual, aname))
            # a defaulted parameter left to its default although the caller holds a value of exactly that name
            given = set(params[:len(call.args)]) | {k.arg for k in call.keywords if k.arg}
            if any(k.arg is None for k in call.keywords):
                given = allp
            caller = module.enclosing_function(call)
            if caller is not None:
                cname = module.qualname_of(caller)
                held = set(param_names(caller)) | {n.id for n in walk_local(caller) if isinstance(n, ast.Name) and isinstance(n.ctx, ast.Store) and n.lineno < call.lineno}
                defaults = set()
                pos_ = fn.args.posonlyargs + fn.args.args
                defaults |= {a.arg for a in pos_[len(pos_) - len(fn.args.defaults):]}
                defaults |= {a.arg for a, d in zip(fn.args.kwonlyargs, fn.args.kw_defaults) if d is not None}
                for pname in sorted((defaults & held) - given):
                    if caller is fn or qual.split('.')[-1] in ARG_DROP_CALLEE_EXEMPT:
                        continue    # recursion handing on a subset of its own parameters is judged by the rule of that function
                    dropped += 1
                    reason = ARG_DROP_TRIAGE.get((rel, cname, qual, pname))
                    ck.ob(rule, module.loc(call), reason is not None, '{}(): parameter `{}` is left to its default although {} holds a value named `{}`{}'.format(
                        qual, pname, cname, pname, ' -- triaged: ' + reason if reason else ': the requested value does not reach the callee'),
                        key='{}|{}|{}|dropped-{}'.format(rule, cname, qual, pname))
    ck.extra.setdefault('arg_binding', {})['calls_resolved'] = resolved
    ck.extra['arg_binding']['same_name_arguments'] = samename
    ck.extra['arg_binding']['defaulted_although_held'] = dropped
    return resolved, samename


# ----------------------------------------------------------------------------------------------------------------------
# ZIP-prefix: an equality predicate that walks two sequences in lock-step must first establish that they are equally long
ZIP_TRIAGE = {
    ('vermouth/molecule.py', 'interaction_match', 'zip(nodes, atom_attrs)'):
        'reached only when the atom tuples are equal; atom_attrs is built per atom by the parser ([{}] * len(atoms) as fall-back), and a missing entry means "no constraint on that atom", not a mismatch',
    ('vermouth/molecule.py', 'Molecule.same_nodes', 'zip(self.nodes.values(), other.nodes.values())'):
        'the ordered key lists were compared just before (`list(self.nodes.keys()) != list(other.nodes.keys())` returns False), so both views are equally long',
    ('vermouth/molecule.py', 'Link.same_non_edges', "zip(itertools.groupby(sorted_self, key=lambda x: x[0]), itertools.groupby(sorted_other, key=lambda x: x[0]))"):
        'total lengths are compared first and every zipped group pair compares its key and its length, so a surplus group on one side forces a mismatch earlier',
}


def zip_prefix(ck, rel, predicates, rule='ZIP-prefix'):
    """`predicates`: qualified names of equality predicates in module `rel`.  Every zip() of two sequences inside them is
    either triaged (frozen table above) or guarded by a length comparison of the same operands that rejects a mismatch."""
    module = ck.index.mod(rel)
    sites = 0
    for qual in predicates:
        fn = module.functions.get(qual)
        if fn is None:
            continue
        for call in [c for c in walk_local(fn) if isinstance(c, ast.Call) and call_name(c) in ('zip', 'itertools.zip_longest', 'zip_longest')]:
            if call_name(call) != 'zip' or len(call.args) < 2:
                continue
            if any(isinstance(k, ast.keyword) and k.arg == 'strict' and try_fold(k.value, default=False) is True for k in call.keywords):
                continue
            sites += 1
            text = u(call)
            ops = [u(a) for a in call.args]
            defs = []
            for a in call.args:
                d = single_def(fn, a.id) if isinstance(a, ast.Name) else None
                defs.append(u(d) if d is not None else None)
            guarded = False
            for cmp_ in [n for n in walk_local(fn) if isinstance(n, ast.Compare) and len(n.ops) == 1 and isinstance(n.ops[0], (ast.NotEq, ast.Eq))]:
                sides = [cmp_.left, cmp_.comparators[0]]
                if all(isinstance(s_, ast.Call) and call_name(s_) == 'len' and s_.args for s_ in sides):
                    got = sorted(u(s_.args[0]) for s_ in sides)
                    if got == sorted(ops) or (None not in defs and got == sorted(defs)):
                        guarded = cmp_.lineno <= call.lineno
            reason = ZIP_TRIAGE.get((rel, qual, text))
            ck.ob(rule, module.loc(call), guarded or reason is not None,
                  '{}: `{}` walks two sequences in lock-step; {}'.format(qual, text[:90], 'a length comparison of the same operands precedes it' if guarded else
                                                                        ('triaged: ' + reason if reason else 'nothing establishes that they are equally long -- a strict prefix compares equal')),
                  key='{}|{}|{}'.format(rule, qual, text[:60]))
    return sites


# ----------------------------------------------------------------------------------------------------------------------
# EDGE-orientation: an undirected edge has no first and second end
def edge_orientation(ck, rels, rule='EDGE-orientation'):
    """In a loop over the edges of an (undirected) graph, a test `a in S1 and b in S2` on the two ends with S1 != S2 must be
    accompanied by the mirrored test -- networkx reports an undirected edge once, in an arbitrary orientation."""
    n = 0
    for rel in rels:
        module = ck.index.mod(rel)
        for qual, fn in module.functions.items():
            for loop in [l for l in walk_local(fn) if isinstance(l, (ast.For, ast.comprehension))]:
                it = loop.iter
                txt = u(it)
                if not (txt.endswith('.edges') or '.edges(' in txt or txt.endswith('.edges()')):
                    continue
                tgt = loop.target
                if not (isinstance(tgt, ast.Tuple) and len(tgt.elts) >= 2 and all(isinstance(e, ast.Name) for e in tgt.elts[:2])):
                    continue
                a, b = tgt.elts[0].id, tgt.elts[1].id
                scope = loop.body if isinstance(loop, ast.For) else loop.ifs
                for test in [t for s_ in scope for t in ast.walk(s_) if isinstance(t, ast.BoolOp) and isinstance(t.op, ast.And)]:
                    mem = {}
                    for v in test.values:
                        if isinstance(v, ast.Compare) and len(v.ops) == 1 and isinstance(v.ops[0], ast.In) and isinstance(v.left, ast.Name) and v.left.id in (a, b):
                            mem.setdefault(v.left.id, set()).add(u(v.comparators[0]))
                    if a in mem and b in mem and mem[a] != mem[b]:
                        n += 1
                        # mirrored test somewhere in the same statement scope
                        s1, s2 = sorted(mem[a])[0], sorted(mem[b])[0]
                        mirrored = any(isinstance(t2, ast.BoolOp) and isinstance(t2.op, ast.And) and
                                       {'{} in {}'.format(b, s1), '{} in {}'.format(a, s2)} <= {u(v2) for v2 in t2.values}
                                       for s_ in scope for t2 in ast.walk(s_))
                        ck.ob(rule, module.loc(test), mirrored, '{}: `{}` tests the ends of an undirected edge from `{}` in one orientation{}'.format(
                            qual, u(test)[:80], txt[:40], ' and in the mirrored one' if mirrored else ' only -- an edge stored the other way round is skipped'),
                            key='{}|{}|{}'.format(rule, qual, u(test)[:50]))
    ck.extra['edge_orientation_sites'] = n
    return n


# ----------------------------------------------------------------------------------------------------------------------
def sorted_nodes_rule(ck, rule):
    """Molecule.sorted_nodes is the atom order of every writer (ITP, PDB, GRO): every node, by atom id, ties in node order."""
    mol = ck.index.mod('vermouth/molecule.py')
    sn = mol.func('Molecule.sorted_nodes')
    ck.analysed(mol, sn)
    from .. import interp as _ip
    body = [s_ for s_ in sn.body if not (isinstance(s_, ast.Expr) and isinstance(s_.value, ast.Constant)) and not _ip._is_log_stmt(s_)]
    ok = len(body) == 1 and isinstance(body[0], ast.Expr) and isinstance(body[0].value, ast.YieldFrom) and isinstance(body[0].value.value, ast.Call) \
        and call_name(body[0].value.value) == 'sorted' and u(body[0].value.value.args[0]) == 'self.nodes'
    if ok:
        lam = kwarg(body[0].value.value, 'key')
        ok = isinstance(lam, ast.Lambda) and u(lam.body) == "self.nodes[{}].get('atomid', np.inf)".format(lam.args.args[0].arg) and kwarg(body[0].value.value, 'reverse') is None
    ck.ob(rule, mol.loc(sn), ok, 'sorted_nodes yields every node, ordered by atom id alone (a missing id sorts last; the id 0 is an id like any other; atoms with equal or no ids '
          'keep the molecule\'s own node order -- the order the coordinate writers and the ITP writer share)', key=rule + '|sorted_nodes')


# ----------------------------------------------------------------------------------------------------------------------
def pdb_atom_record_rules(ck, rule):
    """PDBParser._atom: whether a record is kept, and what element it gets, depends on that record alone."""
    pdb = ck.index.mod('vermouth/pdb/pdb.py')
    fn = ck.need(method(pdb.cls('PDBParser'), '_atom'), 'PDBParser._atom vanished')
    ck.analysed(pdb, fn)
    allowed_self = {'self.exclude', 'self.ignh', 'self._skipahead'}
    offenders = []
    nret = 0
    for st, cond, env in stmts_with_env(fn, lambda s_: isinstance(s_, ast.Return)):
        nret += 1
        for a in flow.atoms_of(cond):
            for part in a[1:]:
                try:
                    expr = ast.parse(part, mode='eval').body
                except SyntaxError:
                    continue
                for n in ast.walk(expr):
                    if isinstance(n, ast.Attribute) and isinstance(n.value, ast.Name) and n.value.id == 'self' and u(n) not in allowed_self:
                        offenders.append(u(n))
    ck.ob(rule, pdb.loc(fn), nret >= 3 and not offenders,
          'an ATOM/HETATM record is skipped on grounds of that record alone (its altLoc, residue name, element) and of the reader\'s settings; no memory of earlier records '
          'takes part ({} skip path(s){})'.format(nret, '; parser state read: ' + ', '.join(sorted(set(offenders))) if offenders else ''), key=rule + '|record-local-filter')
    skip = ('atom', ('truth', 'self._skipahead'))
    ok = False
    for st, c, e in stmts_with_env(fn, lambda s_: isinstance(s_, ast.Return)):
        ats = [a for a in flow.atoms_of(c) if "['altloc']" in atom_text(a)]
        if len(ats) == 1 and ats[0][0] == 'In' and flow.equivalent(c, ('not', ('atom', ats[0])), flow.NOT(skip))[0]:
            ok = try_fold(ast.parse(ats[0][2], mode='eval').body, default=None) in (['', 'A'], ('', 'A'), {'', 'A'})
    ck.ob(rule, pdb.loc(fn), ok, 'alternate locations: exactly the records labelled "" or "A" are kept', key=rule + '|altloc')
    stores = [(st, c) for st, c, e in stmts_with_env(fn, lambda s_: isinstance(s_, ast.Assign) and u(s_.targets[0]) == "properties['element']")]
    ok = len(stores) == 1 and flow.equivalent(stores[0][1], ('not', ('atom', ('truth', "properties['element']"))), flow.NOT(skip))[0]
    if ok:
        val = flow.subst(stores[0][0].value, {k: v for st, c, e in stmts_with_env(fn, lambda s_: s_ is stores[0][0]) for k, v in e.items()})
        ok = u(val) == "first_alpha(properties['atomname'])"
    ck.ob(rule, pdb.loc(fn), ok, 'a record without an element column gets the first letter of its atom name as element (independent of how the name is aligned or numbered: '
          '"HE21" and "1HE2" are both H); a given element is never overridden', key=rule + '|element')


# ----------------------------------------------------------------------------------------------------------------------
def reference_residue_rules(ck, rule):
    """repair_graph._get_reference_residue: the reference block carries every requested modification, cumulatively."""
    # ------------------------------------------------------------ the reference block is built from *every* request of the residue
    rgm = ck.index.mod('vermouth/processors/repair_graph.py')
    grr = rgm.func('_get_reference_residue')
    ck.analysed(rgm, grr)
    # the residue attributes handed to the reference graph (and from there to every rebuilt atom) are the residue node's *current* ones -- read after a
    # requested mutation wrote the new residue name into that node, not from a copy taken before
    mkr = rgm.func('make_reference')
    ck.analysed(rgm, mkr)
    adds_ = [c for c in walk_local(mkr) if isinstance(c, ast.Call) and call_attr(c) == 'add_node' and u(c.func.value) == 'reference_graph']
    star_ = [k.value for c in adds_ for k in c.keywords if k.arg is None]
    renames_ = [s_ for s_ in walk_local(mkr) if isinstance(s_, ast.Assign) and any(isinstance(t_, ast.Subscript) and u(t_) == "residues.nodes[residx]['resname']" for t_ in s_.targets)]
    live = len(adds_) == 1 and len(star_) == 1 and u(star_[0]) == 'residues.nodes[residx]'
    ck.ob(rule, rgm.loc(mkr), live and len(renames_) == 1, 'make_reference passes the residue node itself (`**residues.nodes[residx]`, with the mutated name written into it) on to the '
          'reference graph ({})'.format(u(star_[0]) if star_ else '?'), key=rule + '|live-residue-attributes')
    ml = [l for l in ast.walk(grr) if isinstance(l, ast.For) and u(l.iter) in ('modifications', "residue['modification']")]
    ok = len(ml) == 1
    detail = ''
    if ok:
        patches = stmts_with_env(grr, lambda s_: isinstance(s_, ast.Assign) and call_name(s_.value) == '_patch_modification', stmts=ml[0].body)
        ok = len(patches) == 1 and not any(isinstance(n, (ast.Break, ast.Return)) for n in ast.walk(ml[0]))
        if ok:
            st, cond, env = patches[0]
            var = u(ml[0].target)
            want = ('not', ('atom', ('Eq', "'none'", var)))
            alt = ('not', ('atom', ('Eq', var, "'none'")))
            ok = (flow.equivalent(cond, want)[0] or flow.equivalent(cond, alt)[0]) and u(st.targets[0]) == 'reference_block' and \
                u(st.value.args[0]) == 'reference_block' and u(flow.subst(st.value.args[1], env)) == 'force_field.modifications[{}]'.format(var)
            detail = flow.show(cond)[:80]
    ck.ob(rule, rgm.loc(grr), ok, 'every modification requested for the residue, except the placeholder "none", is patched onto the reference block, cumulatively, '
          'and no request ends the loop early ({})'.format(detail), key=rule + '|reference-modifications')
    rb = assignments_to(grr, 'reference_block')
    first = u(rb[0]) if rb else ''
    rn = assignments_to(grr, 'resname')
    ok = first == 'force_field.reference_graphs[resname]' and sorted(u(v) for v in rn) == sorted(['mutation', "residue['resname']"]) and \
        'mutation = mutation[0]' in u(grr) and 'if not are_all_equal(mutation):' in u(grr)
    ck.ob(rule, rgm.loc(grr), ok, 'the reference block is the block named by the mutation request when there is one (conflicting requests are an error), '
          'else the block of the residue name', key=rule + '|reference-block')
    pm = rgm.func('_patch_modification')
    if pm is not None and 'zip(non_anchor_idxs, range(' in u(pm) and 'nx.subgraph(modification, non_anchor_idxs)' in u(pm):
        ck.analysed(rgm, pm)
        subgraph_order_rule(ck, rule)


def subgraph_order_rule(ck, rule):
    """Molecule.subgraph lists its atoms in the order of the nodes it was given (the copies are made by walking the argument).  _patch_modification pairs the
    atoms a modification adds with new node numbers by position ("under the assumption that .. it keeps the same order", its own comment): a sub-molecule in
    any other order attaches the modification's bonds to the wrong added atoms."""
    mol = ck.index.mod('vermouth/molecule.py')
    sg = ck.need(method(mol.cls('Molecule'), 'subgraph'), 'Molecule.subgraph vanished')
    ck.analysed(mol, sg)
    param = param_names(sg)[1]
    adds = [c for c in walk_local(sg) if isinstance(c, ast.Call) and call_attr(c) == 'add_nodes_from']
    ok = len(adds) == 1
    src = None
    if ok:
        src = adds[0].args[0]
        if isinstance(src, ast.Name):
            src = single_def(sg, src.id)
        ok = isinstance(src, (ast.ListComp, ast.GeneratorExp)) and len(src.generators) == 1 and u(src.generators[0].iter) == param and not src.generators[0].ifs
        # the argument may have been materialised into a list / tuple first -- not into a set, and not sorted
        for a_ in assignments_to(sg, param):
            if any(a_ is x for x in ast.walk(sg)) and getattr(a_, 'lineno', 0) < adds[0].lineno:
                ok = ok and isinstance(a_, ast.Call) and call_name(a_) in ('list', 'tuple') and [u(x) for x in a_.args] == [param]
    ck.ob(rule, mol.loc(sg), ok, 'Molecule.subgraph adds its atoms by walking the nodes it was given, in their order (source of the added nodes: `{}`)'.format(u(src)[:70] if src is not None else '?'),
          key=rule + '|subgraph|argument-order')


# ----------------------------------------------------------------------------------------------------------------------
def runs_every_molecule(ck, rel, clsname, rule, allow_filter=None):
    """The processor visits every molecule of the system: run_system is inherited from Processor (which does), or calls
    super().run_system(system) unconditionally, or loops over system.molecules calling run_molecule unconditionally."""
    proc = ck.index.mod('vermouth/processors/processor.py')
    base = ck.need(method(proc.cls('Processor'), 'run_system'), 'Processor.run_system vanished')
    # interpreted (own interpreter) on stand-in systems of 0, 1 and 3 molecules: afterwards system.molecules is the list of run_molecule's results, in order --
    # whatever the spelling (loop with append, comprehension, map)
    from .. import interp as _interp
    ok_base = True
    try:
        for mols_ in ([], ['m0'], ['m0', 'm1', 'm2'], ['m0', None, 'm0']):
            env_ = {'system.molecules': list(mols_), 'self.run_molecule': lambda m_: ('ran', m_), 'map': lambda f_, xs_: [f_(x_) for x_ in xs_]}
            try:
                _interp.run_stmts(base.body, env_)
            except _interp.Returned:
                pass
            ok_base = ok_base and list(env_.get('system.molecules', ())) == [('ran', m_) for m_ in mols_]
    except (_interp.Unsupported, KeyError, TypeError, AttributeError):
        ok_base = False
    ck.ob(rule, proc.loc(base), ok_base, 'Processor.run_system runs run_molecule on every molecule of the system, unconditionally, and stores the results', key=rule + '|Processor.run_system')
    module = ck.index.mod(rel)
    cls = module.cls(clsname)
    rs = method(cls, 'run_system')
    bases = [u(b).split('.')[-1] for b in cls.bases]
    if rs is None:
        ck.ob(rule, module.loc(cls), 'Processor' in bases, '{} inherits run_system from Processor (bases: {})'.format(clsname, bases), key='{}|{}'.format(rule, clsname))
        return
    ck.analysed(module, rs)
    sup = calls_with_env(rs, lambda c: u(c.func) == 'super().run_system')
    ok = False
    how = 'neither super().run_system(system) nor a loop over system.molecules'
    if len(sup) == 1:
        ok = flow.valid(sup[0][2]) and [u(a) for a in sup[0][0].args] == [param_names(rs)[1]] and 'Processor' in bases
        how = 'super().run_system({}) under {}'.format(', '.join(u(a) for a in sup[0][0].args), flow.show(sup[0][2])[:60])
    else:
        sysname = param_names(rs)[1] if len(param_names(rs)) > 1 else 'system'
        lps = [l for l in ast.walk(rs) if isinstance(l, ast.For) and u(l.iter) in ('{}.molecules'.format(sysname), 'enumerate({}.molecules)'.format(sysname), 'list({}.molecules)'.format(sysname))]
        if len(lps) == 1:
            calls = calls_with_env(rs, lambda c: u(c.func) in ('self.run_molecule',), stmts=lps[0].body)
            ok = len(calls) == 1 and (flow.valid(calls[0][2]) or (allow_filter is not None and allow_filter(calls[0][2]))) and \
                not any(isinstance(n, (ast.Break, ast.Return)) for n in ast.walk(lps[0]))
            how = 'loop over {} calling run_molecule under {}'.format(u(lps[0].iter), flow.show(calls[0][2])[:60] if calls else '?')
    ck.ob(rule, module.loc(rs), ok, '{}.run_system treats every molecule of the system: {}'.format(clsname, how), key='{}|{}'.format(rule, clsname))


# ----------------------------------------------------------------------------------------------------------------------
# EXC: which errors are absorbed where
def _handler_action(h):
    """How control leaves the handler: raise / return / continue / break / exit, or falls through (the error is absorbed and the code goes on)."""
    kinds = set()
    for st in h.body:
        for n in ast.walk(st):
            if isinstance(n, ast.Raise):
                kinds.add('raise')
            elif isinstance(n, ast.Return):
                kinds.add('return')
            elif isinstance(n, ast.Continue):
                kinds.add('continue')
            elif isinstance(n, ast.Break):
                kinds.add('break')
            elif isinstance(n, ast.Call) and call_name(n) in ('sys.exit', 'exit'):
                kinds.add('exit')
    last = h.body[-1]
    if not isinstance(last, (ast.Raise, ast.Return, ast.Continue, ast.Break)):
        kinds.add('fallthrough')
    return sorted(kinds)


def handler_table(module):
    """{qualname: [[exception types..., action kinds...], ...]} in source order."""
    out = {}
    for qual, fn in module.functions.items():
        rows = []
        for node in walk_local(fn):
            if isinstance(node, ast.Try):
                for h in node.handlers:
                    if h.type is None:
                        types = ['<bare>']
                    elif isinstance(h.type, ast.Tuple):
                        types = sorted(u(e) for e in h.type.elts)
                    else:
                        types = [u(h.type)]
                    rows.append([types, _handler_action(h)])
        if rows:
            out[qual] = sorted(rows)
    return out


LOOKUP_ERRORS = {'KeyError', 'IndexError', 'LookupError', 'Exception', 'BaseException', '<bare>'}


def guarded_lookups(module):
    """{qualname: sorted texts of the subscript reads that sit in a try body whose handlers catch a lookup error}: a missing key *there* is absorbed by the handler."""
    out = {}
    for qual, fn in module.functions.items():
        found = []
        for node in walk_local(fn):
            if not isinstance(node, ast.Try):
                continue
            caught = set()
            for h in node.handlers:
                if h.type is None:
                    caught.add('<bare>')
                else:
                    caught |= {u(e).split('.')[-1] for e in (h.type.elts if isinstance(h.type, ast.Tuple) else [h.type])}
            if not caught & LOOKUP_ERRORS:
                continue
            for st in node.body:
                for n in ast.walk(st):
                    if isinstance(n, ast.Subscript) and isinstance(n.ctx, ast.Load) and not isinstance(n.slice, ast.Slice):
                        found.append(u(n))
        if found:
            out[qual] = sorted(found)
    return out


def _handler_replaced_by_test(fn, row, pinned_lookups):
    """A handler of the pinned function is gone, and what it caught is now excluded by an explicit test instead (look before you leap):
    `try: x = C[K] / except KeyError: A`  ->  `if K not in C: A`;  `try: getattr(o, a) / except AttributeError:`  ->  `getattr(o, a, default)`;
    `try: X[i] / except IndexError:`  ->  a test on `len(X)`."""
    types, _actions = row
    compares = [n for n in walk_local(fn) if isinstance(n, ast.Compare) and len(n.ops) == 1]
    if types == ['KeyError'] and pinned_lookups:
        def tested(text):
            node = ast.parse(text, mode='eval').body
            if not isinstance(node, ast.Subscript):
                return False
            return any(isinstance(c.ops[0], (ast.In, ast.NotIn)) and u(c.left) == u(node.slice) and u(c.comparators[0]) == u(node.value) for c in compares)
        return all(tested(t) for t in pinned_lookups)
    if types == ['AttributeError']:
        return any(isinstance(c, ast.Call) and call_name(c) == 'getattr' and len(c.args) == 3 for c in walk_local(fn))
    if types == ['IndexError'] and pinned_lookups:
        def sized(text):
            node = ast.parse(text, mode='eval').body
            if not isinstance(node, ast.Subscript):
                return False
            want = 'len({})'.format(u(node.value))
            return any(want in (u(c.left), u(c.comparators[0])) for c in compares)
        return all(sized(t) for t in pinned_lookups)
    return False


def handlers_unchanged(ck, rels, rule='EXC-handlers'):
    import json
    import os
    path = os.path.join(os.path.dirname(os.path.dirname(os.path.abspath(__file__))), 'handlers.json')
    with open(path) as handle:
        ref = json.load(handle)
    n = 0
    for rel in rels:
        module = ck.index.mod(rel)
        now = handler_table(module)
        want = ref.get(rel, {})
        for qual in sorted(set(now) | set(want)):
            if qual not in module.functions and qual in want:
                continue    # the function is gone: anchors of the property's own rules decide that
            a, b = now.get(qual, []), want.get(qual, [])
            n += max(len(a), len(b), 1)
            extra = [r for r in a if r not in b]
            missing = [r for r in b if r not in a]
            if missing and not extra and qual in module.functions:
                missing = [r for r in missing if not _handler_replaced_by_test(module.functions[qual], r, ref.get('#lookups', {}).get(rel, {}).get(qual, []))]
            ck.ob(rule, module.loc(module.functions[qual]) if qual in module.functions else rel, not extra and not missing,
                  '{}: exception handlers as triaged ({} handler(s)){}{}'.format(
                      qual, len(b), '; new or widened: {}'.format(extra) if extra else '', '; removed or narrowed: {}'.format(missing) if missing else '') +
                  ('' if not (extra or missing) else ' -- which errors this function absorbs (and what it does then) changed'),
                  key='{}|{}|{}'.format(rule, rel, qual))
        # which lookups a lookup-error handler covers: a lookup moved under it turns "an unknown name is an error" into "is skipped"
        now_l, want_l = guarded_lookups(module), ref.get('#lookups', {}).get(rel, {})
        for qual in sorted(set(now_l) | set(want_l)):
            if qual not in module.functions:
                continue
            a, b = list(now_l.get(qual, [])), list(want_l.get(qual, []))
            extra = list(a)
            for t in b:
                if t in extra:
                    extra.remove(t)
            n += 1
            ck.ob(rule, module.loc(module.functions[qual]), not extra,
                  '{}: the lookups covered by a KeyError/IndexError handler are the triaged ones ({}){}'.format(
                      qual, len(b), '' if not extra else '; now also covered: {} -- a key missing there is absorbed by the handler instead of being an error'.format(extra)),
                  key='{}|{}|{}|lookups'.format(rule, rel, qual))
    ck.extra['handlers_compared'] = n


# ----------------------------------------------------------------------------------------------------------------------
# ALIAS-source: once a function has made a copy of an object to work on, it does not go on editing the original
def copy_source_untouched(ck, rels, rule='ALIAS-source'):
    n = 0
    for rel in rels:
        module = ck.index.mod(rel)
        for qual, fn in module.functions.items():
            copies = {}
            for st in walk_local(fn):
                if isinstance(st, ast.Assign) and isinstance(st.targets[0], ast.Name) and isinstance(st.value, ast.Call):
                    src = None
                    if call_attr(st.value) in ('copy', 'deepcopy') and isinstance(st.value.func, ast.Attribute) and not st.value.args:
                        src = st.value.func.value
                    elif call_name(st.value) in ('copy.copy', 'copy.deepcopy') and st.value.args:
                        src = st.value.args[0]
                    if isinstance(src, ast.Name) and src.id != st.targets[0].id:
                        copies[src.id] = (st.targets[0].id, st.lineno)
            for srcname, (cp, line) in copies.items():
                writes = []
                for node in walk_local(fn):
                    tgt = None
                    if isinstance(node, (ast.Subscript, ast.Attribute)) and isinstance(node.ctx, (ast.Store, ast.Del)):
                        tgt = node
                    elif isinstance(node, ast.Call) and isinstance(node.func, ast.Attribute) and node.func.attr in flow.MUTATOR_METHODS | {'add_node', 'add_edge', 'remove_node',
                                                                                                                                  'remove_nodes_from', 'add_interaction', 'remove_interaction', 'merge_molecule', 'add_nodes_from', 'add_edges_from'}:
                        tgt = node.func.value
                    if tgt is not None and base_name(tgt) == srcname and node.lineno > line:
                        writes.append('{}:{}'.format(node.lineno, u(node)[:50]))
                n += 1
                ck.ob(rule, module.loc(fn), not writes, '{}: `{}` is a copy of `{}`; after taking it the function {}'.format(
                    qual, cp, srcname, 'edits only the copy' if not writes else 'still edits the original ({})'.format('; '.join(writes[:3]))),
                    key='{}|{}|{}|{}'.format(rule, rel, qual, srcname))
    ck.extra['copy_sites'] = n
    return n


# ----------------------------------------------------------------------------------------------------------------------
def no_identity_on_values(ck, rels, rule='IS-literal'):
    """`is` / `is not` compares object identity: against a number, string or tuple it depends on interning, not on the value."""
    n = 0
    for rel in rels:
        module = ck.index.mod(rel)
        for node in ast.walk(module.tree):
            if isinstance(node, ast.Compare):
                left = node.left
                for op, right in zip(node.ops, node.comparators):
                    if isinstance(op, (ast.Is, ast.IsNot)):
                        for side in (left, right):
                            if (isinstance(side, ast.Constant) and side.value not in (None, True, False, Ellipsis)) or isinstance(side, (ast.Tuple, ast.List, ast.Dict, ast.Set, ast.JoinedStr)):
                                n += 1
                                ck.ob(rule, module.loc(node), False, '`{}` tests identity against a value: the outcome depends on object interning, not on equality'.format(u(node)[:80]),
                                      key='{}|{}|{}'.format(rule, rel, u(node)[:50]))
                    left = right
    ck.ob(rule, ','.join(rels)[:80], True, 'identity comparisons against values: {} found'.format(n), key=rule + '|ran|' + ','.join(rels)[:120])


# ----------------------------------------------------------------------------------------------------------------------
def subscript_stores(module):
    """{qualname: [[target text, value text], ...]} of the plain assignments to an item (`d[k] = v`) of every function."""
    out = {}
    for qual, fn in module.functions.items():
        rows = [[u(t), u(st.value)] for st in walk_local(fn) if isinstance(st, ast.Assign) for t in st.targets if isinstance(t, ast.Subscript)]
        if rows:
            out[qual] = sorted(rows)
    return out


def no_store_unless_present(ck, rels, rule='STORE-overwrite'):
    """`d.setdefault(k, v)` as a statement -- read by the rules as `d[k] = d.get(k, v)` -- stores v only when k is absent.  Where the pinned function
    *assigned* that item (`d[k] = v`: whatever was there is replaced) and that assignment is gone, a keep-what-is-there store in its place is reported.
    (`d[k] = d.get(k, v)` in the pinned tree was never an overwrite; setdefault is just another spelling of it.)"""
    import json
    import os
    with open(os.path.join(os.path.dirname(os.path.dirname(os.path.abspath(__file__))), 'handlers.json')) as handle:
        pinned_stores = json.load(handle).get('#stores', {})
    n = 0
    for rel in rels:
        module = ck.index.mod(rel)
        now_stores = subscript_stores(module)
        for qual, fn in module.functions.items():
            for st in walk_local(fn):
                keeps = None
                if isinstance(st, ast.Expr) and isinstance(st.value, ast.Call) and call_attr(st.value) == 'setdefault' and len(st.value.args) == 2 \
                        and not _is_container(st.value.args[1]):
                    keeps = (u(st.value.func.value), u(st.value.args[0]))
                elif isinstance(st, ast.Assign) and len(st.targets) == 1 and isinstance(st.targets[0], ast.Subscript) and isinstance(st.value, ast.Call) \
                        and call_attr(st.value) == 'get' and len(st.value.args) == 2 and isinstance(st.value.func, ast.Attribute) \
                        and u(st.value.func.value) == u(st.targets[0].value) and u(st.value.args[0]) == u(st.targets[0].slice):
                    keeps = (u(st.targets[0].value), u(st.targets[0].slice))
                if keeps is None:
                    continue
                recv, key = keeps
                target = '{}[{}]'.format(recv, key)
                get_form = '{}.get({}'.format(recv, key)
                was = [v for t, v in pinned_stores.get(rel, {}).get(qual, []) if t == target and not v.startswith(get_form)]
                still = [v for t, v in now_stores.get(qual, []) if t == target and not v.startswith(get_form)]
                if not was or len(still) >= len(was):
                    continue
                n += 1
                ck.ob(rule, module.loc(st), False, '{}: `{}` keeps a value that is already stored under that key; the pinned function assigned `{} = {}` there'.format(
                    qual, u(st)[:90], target, was[0][:60]), key='{}|{}|{}|{}'.format(rule, rel, qual, recv[:40]))
    ck.ob(rule, ','.join(rels)[:80], True, 'keep-what-is-there stores (`x.setdefault(k, v)` / `x[k] = x.get(k, v)`) standing where the pinned function overwrote: {} found'.format(n),
          key=rule + '|ran|' + ','.join(rels)[:120])


# ----------------------------------------------------------------------------------------------------------------------
RESIDUE_IDENTITY = ('chain', 'resid', 'resname', 'insertion_code')


def residue_identity(ck, rels, rule='KEY-residue-identity'):
    """A residue is identified by (chain, resid, resname, insertion_code): the two grouping helpers default to that key, and every call that
    spells the key out names at least those four attributes."""
    gu = ck.index.mod('vermouth/graph_utils.py')
    for name in ('make_residue_graph', 'collect_residues'):
        fn = gu.func(name)
        dfl = param_defaults(fn).get('attrs')
        val = try_fold(dfl, default=None)
        ck.ob(rule, gu.loc(fn), val is not None and tuple(val) == RESIDUE_IDENTITY, '{}: default residue key is {} (found {})'.format(name, RESIDUE_IDENTITY, val),
              key='{}|default|{}'.format(rule, name))
    n = 0
    for rel in rels:
        module = ck.index.mod(rel)
        for call in [c for c in ast.walk(module.tree) if isinstance(c, ast.Call) and (call_name(c) or '').split('.')[-1] in ('make_residue_graph', 'collect_residues')]:
            attrs = call.args[1] if len(call.args) > 1 else kwarg(call, 'attrs')
            if attrs is None:
                continue
            n += 1
            val = try_fold(attrs, default=None)
            if val is None and isinstance(attrs, ast.Name):
                # handed on from the caller's own parameter (graph_utils internals): judged at the outer call
                continue
            ok = val is not None and set(RESIDUE_IDENTITY) <= set(val)
            caller = module.enclosing_function(call)
            ck.ob(rule, module.loc(call), ok, '{}: residues are grouped by {} -- {}'.format(
                module.qualname_of(caller) if caller is not None else '<module>', val, 'a superset of the residue identity' if ok else
                'two residues that differ only in {} become one'.format(sorted(set(RESIDUE_IDENTITY) - set(val or ())))),
                key='{}|{}|{}'.format(rule, rel, module.qualname_of(caller) if caller is not None else '<module>'))
    ck.extra['residue_key_calls'] = n


# ----------------------------------------------------------------------------------------------------------------------
def residue_graph_rules(ck, rule):
    """graph_utils.make_residue_graph: every residue node keeps its own sub-graph of atoms under 'graph'; only attributes all its atoms share are
    copied up, never an atom-level 'graph' attribute (the beads DoMapping produces carry one)."""
    gu = ck.index.mod('vermouth/graph_utils.py')
    mrg = gu.func('make_residue_graph')
    icv = gu.func('_items_with_common_values')
    for f_ in (mrg, icv):
        ck.analysed(gu, f_)
    calls = [c for c in walk_local(mrg) if isinstance(c, ast.Call) and call_name(c) == '_items_with_common_values']
    ok = len(calls) == 1 and u(calls[0].args[0]) == "res_node['graph']" and try_fold(kwarg(calls[0], 'excluded_keys'), default=None) in (['graph'], ('graph',)) and \
        'res_node.update(' in u(mrg) and "res_graph = partition_graph(graph, residue_idxs.values())" in u(mrg)
    ck.ob(rule, gu.loc(mrg), ok, 'make_residue_graph copies onto a residue the attributes common to its atoms, except `graph` (which holds the residue\'s own atoms)', key=rule + '|residue-graph|exclude')
    lp = [l for l in icv.body if isinstance(l, ast.For) and u(l.iter) == 'nodes']
    ok = len(lp) == 1
    if ok:
        apps = stmts_with_env(icv, lambda s_: isinstance(s_, ast.Expr) and call_attr(s_.value) == 'append' and u(s_.value.func.value).startswith('common_attrs['), stmts=lp[0].body)
        ok = len(apps) == 1
        if ok:
            ats = list(flow.atoms_of(apps[0][1]))
            ok = len(ats) == 1 and ats[0][0] == 'In' and ats[0][2] == 'excluded_keys' and flow.equivalent(apps[0][1], ('not', ('atom', ats[0])))[0]
        fin = [v for v in assignments_to(icv, 'common_attrs') if isinstance(v, ast.DictComp)]
        if ok and len(fin) == 1:
            f_ = flow.AND(*[flow.to_formula(c) for c in fin[0].generators[0].ifs])
            names_ = {}
            for a in flow.atoms_of(f_):
                if a[0] == 'Eq' and set(a[1:]) == {'len(nodes)', 'len(vals)'}:
                    names_[a] = 'ALLHAVE'
                elif a[0] == 'truth' and a[1] == 'are_all_equal(vals)':
                    names_[a] = 'EQUAL'
            ok = len(names_) == len(flow.atoms_of(f_)) == 2 and flow.equivalent(flow.rename(f_, names_), flow.parse_formula('ALLHAVE and EQUAL'))[0]
        else:
            ok = False
    ck.ob(rule, gu.loc(icv), ok, '_items_with_common_values examines every attribute of every node the same way: an excluded key is skipped for each node (also when there is only one), '
          'and a key counts as common only when all nodes have it with equal values', key=rule + '|residue-graph|common-values')


# ----------------------------------------------------------------------------------------------------------------------
def no_param_inplace_update(ck, rels, rule='ALIAS-caller-object'):
    """`p += ..` / `p *= ..` on a parameter that the function treats as a collection (len, iteration, indexing) extends the *caller's* list in place, where
    `p = p + ..` made a new one.  The pinned tree has no augmented assignment to such a parameter; a new one is reported.  (Numbers and strings are
    immutable: an augmented assignment to a parameter that is never sized / iterated / indexed, or whose right-hand side is text, is left alone.)"""
    n = 0
    for rel in rels:
        m = ck.index.mod(rel)
        for qual, fn in m.functions.items():
            a = fn.args
            params = {x.arg for x in a.posonlyargs + a.args + a.kwonlyargs} - {'self', 'cls'}
            if not params:
                continue
            n += 1
            for node in walk_local(fn):
                if not (isinstance(node, ast.AugAssign) and isinstance(node.target, ast.Name) and node.target.id in params and isinstance(node.op, (ast.Add, ast.Mult, ast.BitOr, ast.BitAnd, ast.Sub, ast.BitXor))):
                    continue
                p = node.target.id
                # rebound to a fresh object before this statement?  (p = list(p); p += ..) is fine
                rebound = any(isinstance(s, ast.Assign) and any(isinstance(t, ast.Name) and t.id == p for t in s.targets) and s.lineno < node.lineno for s in walk_local(fn))
                textual = isinstance(node.value, (ast.JoinedStr,)) or (isinstance(node.value, ast.Constant) and isinstance(node.value.value, (str, bytes))) or \
                    (isinstance(node.value, ast.Call) and call_attr(node.value) in ('format', 'join', 'str'))
                numeric_rhs = isinstance(node.value, ast.Constant) and isinstance(node.value.value, (int, float)) and isinstance(node.op, (ast.Add, ast.Sub))
                sized = False
                for x in walk_local(fn):
                    if isinstance(x, ast.Call) and call_name(x) in ('len', 'zip', 'enumerate', 'list', 'tuple', 'sorted', 'iter') and any(isinstance(arg, ast.Name) and arg.id == p for arg in x.args):
                        sized = True
                    elif isinstance(x, (ast.For, ast.comprehension)) and isinstance(x.iter, ast.Name) and x.iter.id == p:
                        sized = True
                    elif isinstance(x, ast.Subscript) and isinstance(x.value, ast.Name) and x.value.id == p:
                        sized = True
                if sized and not rebound and not textual and not numeric_rhs:
                    ck.ob(rule, m.loc(node), False, '{}: `{}` updates the parameter `{}` in place -- for a list argument this changes the caller\'s object '
                          '(and whatever else holds it, e.g. a processor\'s configured value) instead of making a new one'.format(qual, u(node), p),
                          key='{}|{}|{}|{}'.format(rule, rel, qual, p))
    ck.ob(rule, rels[0] if rels else '-', True, 'no collection-like parameter is updated in place with an augmented assignment ({} functions with parameters read)'.format(n),
          key=rule + '|scan|' + ','.join(rels))


# ----------------------------------------------------------------------------------------------------------------------
def rebuilt_atom_identity(ck, rule):
    """repair_graph.repair_residue: an atom that is rebuilt belongs to the residue it is rebuilt in -- it receives the residue's chain, number, name,
    insertion code and pending mutation / modification requests.  The statements that build the new atom's attributes from the residue node are
    interpreted on a sample residue (spelling-independent: blacklist loop, whitelist comprehension, dict(...) + del ...)."""
    from .. import interp
    rg = ck.index.mod('vermouth/processors/repair_graph.py')
    fn = rg.func('repair_residue')
    ck.analysed(rg, fn)
    adds = [c for c in walk_local(fn) if isinstance(c, ast.Call) and call_attr(c) == 'add_node' and u(c.func.value) == param_names(fn)[0] and
            any(k.arg is None for k in c.keywords)]
    ok = len(adds) == 1
    detail = 'the insertion of the rebuilt atom (`molecule.add_node(idx, **attributes)`) was not found uniquely'
    if ok:
        var = next(u(k.value) for k in adds[0].keywords if k.arg is None)
        stmt = rg.stmt_of(adds[0])
        block = None
        for node in ast.walk(fn):
            for fld in ('body', 'orelse'):
                sub = getattr(node, fld, None)
                if isinstance(sub, list) and any(s is stmt for s in sub):
                    block = sub
        starts = [i for i, s in enumerate(block or []) if isinstance(s, ast.Assign) and any(isinstance(t, ast.Name) and t.id == var for t in s.targets)]
        ok = bool(starts)
        detail = 'the statements building `{}` were not found before the insertion'.format(var)
        if ok:
            i0 = starts[0]
            i1 = next((i for i in range(i0 + 1, len(block)) if 'reference.nodes' in u(block[i]) or block[i] is stmt), len(block))
            sample = {'chain': 'Q', 'resid': 17, 'resname': 'XYZ', 'insertion_code': 'C', 'mutation': ['ALA'], 'modification': ['N-ter'],
                      'match': {1: 2}, 'found': 'FOUND', 'reference': 'REFERENCE', 'nnodes': 3, 'nedges': 2, 'density': 0.5}
            env = {param_names(fn)[1]: dict(sample)}
            try:
                interp.run_stmts(block[i0:i1], env)
                got = env.get(var)
                must = ['chain', 'resid', 'resname', 'insertion_code', 'mutation', 'modification']
                lost = [k for k in must if not isinstance(got, dict) or got.get(k) != sample[k]]
                ok = not lost
                detail = 'lost on the way: {}'.format(lost) if lost else 'all of {} arrive'.format(must)
            except interp.Unsupported as err:
                ok, detail = False, 'code outside the interpretable fragment: {}'.format(err)
            except interp.Returned:
                ok, detail = False, 'returns while building the atom'
    ck.ob(rule, rg.loc(fn), ok, 'a rebuilt atom carries the identity of its residue (chain, number, name, insertion code) and its pending mutation / modification requests -- ' + detail,
          key=rule + '|rebuilt-atom-identity')


def rebuilt_atom_no_coordinates(ck, rule):
    """repair_graph.repair_residue: an atom that is rebuilt gets no coordinates.  The residue node carries `position` whenever all atoms found for the residue
    share one (always, when a single atom of the residue is present); a rebuilt atom has no coordinates in the input (F27: it was placed on that atom and
    averaged into particle positions).  Claimed for C09 only ("constituents without coordinates never contribute")."""
    from .. import interp
    rg = ck.index.mod('vermouth/processors/repair_graph.py')
    fn = rg.func('repair_residue')
    ck.analysed(rg, fn)
    adds = [c for c in walk_local(fn) if isinstance(c, ast.Call) and call_attr(c) == 'add_node' and u(c.func.value) == param_names(fn)[0] and
            any(k.arg is None for k in c.keywords)]
    block, starts, stmt, var = None, [], None, None
    if len(adds) == 1:
        var = next(u(k.value) for k in adds[0].keywords if k.arg is None)
        stmt = rg.stmt_of(adds[0])
        for node in ast.walk(fn):
            for fld in ('body', 'orelse'):
                sub = getattr(node, fld, None)
                if isinstance(sub, list) and any(s is stmt for s in sub):
                    block = sub
        starts = [i for i, s in enumerate(block or []) if isinstance(s, ast.Assign) and any(isinstance(t, ast.Name) and t.id == var for t in s.targets)]
    okp, detailp = len(adds) == 1, 'insertion not found'
    if okp and block is not None and starts:
        sample = {'chain': 'Q', 'resid': 17, 'resname': 'XYZ', 'position': (0.4, 0.1, 0.0), 'match': {1: 2}, 'found': 'FOUND', 'reference': 'REFERENCE', 'nnodes': 1, 'nedges': 0,
                  'density': 0.0}
        env = {param_names(fn)[1]: dict(sample), 'reference.nodes': {5: {'atomname': 'CB', 'element': 'C', 'resname': 'BLOCK'}}, 'ref_idx': 5, 'res_idx': 40, 'match': {}}
        try:
            interp.run_stmts(block[starts[0]:block.index(stmt)], env)
            got = env.get(var)
            okp = isinstance(got, dict) and 'position' not in got
            detailp = 'the rebuilt atom has {}'.format(sorted(got) if isinstance(got, dict) else got)
        except (interp.Unsupported, interp.Returned, KeyError, TypeError) as err:
            okp, detailp = False, 'could not be interpreted: {}'.format(err)
    ck.ob(rule, rg.loc(fn), okp, 'a rebuilt atom does not inherit coordinates from its residue (interpreted on a residue node that carries a `position`) -- ' + detailp,
          key=rule + '|rebuilt-atom-no-coordinates')


# ----------------------------------------------------------------------------------------------------------------------
def _param_key_reads(fn, param):
    """String keys a function reads from its parameter `param` (a mapping): {'k', ...}; None when the parameter is also used in a way that is not a keyed
    read (iterated, handed on whole, ...) -- then every item of it may matter."""
    reads = set()
    for n in walk_local(fn):
        if not (isinstance(n, ast.Name) and n.id == param and isinstance(n.ctx, ast.Load)):
            continue
        return_unknown = True
        # find the immediate context of this occurrence
        for anc in ast.walk(fn):
            if isinstance(anc, ast.Subscript) and anc.value is n and isinstance(anc.slice, ast.Constant) and isinstance(anc.slice.value, str) and isinstance(anc.ctx, ast.Load):
                reads.add(anc.slice.value)
                return_unknown = False
            elif isinstance(anc, ast.Call) and isinstance(anc.func, ast.Attribute) and anc.func.value is n and anc.func.attr == 'get' and anc.args and \
                    isinstance(anc.args[0], ast.Constant) and isinstance(anc.args[0].value, str):
                reads.add(anc.args[0].value)
                return_unknown = False
            elif isinstance(anc, ast.Compare) and len(anc.ops) == 1 and isinstance(anc.ops[0], (ast.In, ast.NotIn)) and anc.comparators[0] is n and \
                    isinstance(anc.left, ast.Constant) and isinstance(anc.left.value, str):
                reads.add(anc.left.value)
                return_unknown = False
        if return_unknown:
            return None
    return reads


def local_memo_tables(ck, rels, rule='CACHE-key'):
    """`if key not in table: table[key] = f(x, ..)` with a table local to the function: the key must determine everything f reads from x.  For an
    argument that is a mapping (a node's attribute dictionary), the string keys the callee reads from it must all be read by the key expression
    from that same object."""
    n = 0
    for rel in rels:
        module = ck.index.mod(rel)
        for qual, fn in module.functions.items():
            tables = {name for name in {t.id for s in walk_local(fn) if isinstance(s, ast.Assign) for t in s.targets if isinstance(t, ast.Name)}
                      if (lambda d: d is not None and (isinstance(d, ast.Dict) and not d.keys or (isinstance(d, ast.Call) and call_name(d) == 'dict' and not d.args and not d.keywords)))(single_def(fn, name))}
            if not tables:
                continue
            for st, cond, env in stmts_with_env(fn, lambda s: isinstance(s, ast.If)):
                t = st.test
                if not (isinstance(t, ast.Compare) and len(t.ops) == 1 and isinstance(t.ops[0], ast.NotIn) and isinstance(t.comparators[0], ast.Name) and t.comparators[0].id in tables):
                    continue
                table = t.comparators[0].id
                fills = [s for s in st.body if isinstance(s, ast.Assign) and any(isinstance(tg, ast.Subscript) and u(tg.value) == table and u(tg.slice) == u(t.left) for tg in s.targets)
                         and isinstance(s.value, ast.Call)]
                if len(fills) != 1:
                    continue
                call = fills[0].value
                callee = module.functions.get(call_name(call) or '')
                n += 1
                key_expr = flow.subst(t.left, env)
                key_text = u(key_expr)
                problems = []
                if callee is None:
                    continue
                cparams = param_names(callee)
                for i, arg in enumerate(call.args):
                    if i >= len(cparams) or isinstance(arg, ast.Constant):
                        continue
                    arg_text = u(flow.subst(arg, env))
                    inner = {id(x.value) for x in ast.walk(key_expr) if isinstance(x, (ast.Subscript, ast.Attribute))}
                    if any(u(x) == arg_text and id(x) not in inner for x in ast.walk(key_expr) if isinstance(x, ast.expr)):
                        continue        # the argument itself is part of the key
                    reads = _param_key_reads(callee, cparams[i])
                    if reads is None:
                        # used whole: the key must mention the argument itself, or the argument must not vary between the fills
                        loops = [l for l in module.ancestors(st) if isinstance(l, (ast.For, ast.While))]
                        bound = {x.id for l in loops for x in ast.walk(l) if isinstance(x, ast.Name) and isinstance(x.ctx, ast.Store)}
                        if {x.id for x in ast.walk(arg) if isinstance(x, ast.Name)} & bound:
                            problems.append('`{}` is used whole by {} and varies between iterations, but is not part of the key'.format(u(arg), callee.name))
                        continue
                    in_key = set()
                    for x in ast.walk(key_expr):
                        if isinstance(x, ast.Subscript) and u(x.value) == arg_text and isinstance(x.slice, ast.Constant):
                            in_key.add(x.slice.value)
                        elif isinstance(x, ast.Call) and isinstance(x.func, ast.Attribute) and x.func.attr == 'get' and u(x.func.value) == arg_text and x.args and isinstance(x.args[0], ast.Constant):
                            in_key.add(x.args[0].value)
                    missing = sorted(reads - in_key)
                    if missing:
                        problems.append('{} reads {} of `{}`, the key `{}` does not'.format(callee.name, missing, u(arg), key_text[:120]))
                ck.ob(rule, module.loc(st), not problems, '{}: memo table `{}` filled with `{}`: the key determines what the computation reads{}'.format(
                    qual, table, u(call)[:80], '' if not problems else ' -- NOT: ' + '; '.join(problems)), key='{}|memo|{}|{}|{}'.format(rule, rel, qual, table))
    ck.ob(rule, rels[0] if rels else '-', True, 'local memo tables (`if key not in table: table[key] = f(..)`) examined: {}'.format(n), key=rule + '|memo-scan|' + ','.join(rels))


# ----------------------------------------------------------------------------------------------------------------------
def no_live_view_in_mutating_loop(ck, rels, rule='ORD-snapshot'):
    """A property computed from an attribute (`reverse_mapping` from `mapping`) is a *view that is recomputed on every access*.  A loop that writes into
    that attribute must not read the property inside the loop: every pass would see a half-updated state.  (Take the value once, before the loop.)"""
    n = 0
    for rel in rels:
        module = ck.index.mod(rel)
        for cname, cls in module.classes.items():
            if '.' in cname:
                continue
            derived = {}
            for m in cls.body:
                if isinstance(m, FUNC_TYPES) and any(isinstance(d, ast.Name) and d.id == 'property' for d in m.decorator_list):
                    reads = {x.attr for x in ast.walk(m) if isinstance(x, ast.Attribute) and isinstance(x.value, ast.Name) and x.value.id == 'self' and isinstance(x.ctx, ast.Load)}
                    derived[m.name] = reads - {m.name}
            if not derived:
                continue
            for m in cls.body:
                if not isinstance(m, FUNC_TYPES):
                    continue
                for loop in [l for l in walk_local(m) if isinstance(l, (ast.For, ast.While))]:
                    # attributes of self the loop writes into: directly, or through a loop variable that walks them
                    aliases = {}
                    for l2 in [loop] + [x for x in ast.walk(loop) if isinstance(x, ast.For)]:
                        it = l2.iter if isinstance(l2, ast.For) else None
                        src = it.func.value if isinstance(it, ast.Call) and isinstance(it.func, ast.Attribute) and it.func.attr in ('values', 'items') else it
                        if isinstance(src, ast.Attribute) and isinstance(src.value, ast.Name) and src.value.id == 'self':
                            for t in ast.walk(l2.target):
                                if isinstance(t, ast.Name):
                                    aliases[t.id] = src.attr
                    written = set()
                    for x in ast.walk(loop):
                        if isinstance(x, ast.Subscript) and isinstance(x.ctx, (ast.Store, ast.Del)):
                            root = x.value
                            while isinstance(root, ast.Subscript):
                                root = root.value
                            if isinstance(root, ast.Attribute) and isinstance(root.value, ast.Name) and root.value.id == 'self':
                                written.add(root.attr)
                            elif isinstance(root, ast.Name) and root.id in aliases:
                                written.add(aliases[root.id])
                    if not written:
                        continue
                    n += 1
                    for x in ast.walk(loop):
                        if isinstance(x, ast.Attribute) and isinstance(x.value, ast.Name) and x.value.id == 'self' and x.attr in derived and derived[x.attr] & written:
                            ck.ob(rule, module.loc(x), False, '{}.{}: the loop writes into self.{} and reads the property `{}` (recomputed from it on every access) inside the loop: '
                                  'each pass sees a half-updated state'.format(cname, m.name, sorted(derived[x.attr] & written)[0], x.attr),
                                  key='{}|{}|{}.{}|{}'.format(rule, rel, cname, m.name, x.attr))
    ck.ob(rule, rels[0] if rels else '-', True, 'loops that write into an attribute of self while a property derived from it exists: {} examined, none reads the property inside'.format(n),
          key=rule + '|scan|' + ','.join(rels))


# ----------------------------------------------------------------------------------------------------------------------
def no_shared_object_filled_per_iteration(ck, rels, rule='ALIAS-per-iteration'):
    """`node = template` inside a loop, followed by `node.update(..)` / `node[k] = v` in the same loop, with `template` built *outside* the loop: every
    iteration writes into the one shared object, so what one iteration put there leaks into the next (a per-iteration object needs a copy)."""
    n = 0
    for rel in rels:
        module = ck.index.mod(rel)
        for qual, fn in module.functions.items():
            for loop in [l for l in walk_local(fn) if isinstance(l, (ast.For, ast.While))]:
                inside = {id(x) for x in ast.walk(loop)}
                bound_in_loop = {t.id for x in ast.walk(loop) if isinstance(x, (ast.Assign, ast.AugAssign, ast.For, ast.With, ast.comprehension))
                                 for t in ast.walk(x.targets[0] if isinstance(x, ast.Assign) else x.target if hasattr(x, 'target') else ast.Pass())
                                 if isinstance(t, ast.Name) and isinstance(t.ctx, ast.Store)}
                for st in [s for s in loop.body if isinstance(s, ast.Assign)]:
                    if not (len(st.targets) == 1 and isinstance(st.targets[0], ast.Name) and isinstance(st.value, ast.Name)):
                        continue
                    alias, src = st.targets[0].id, st.value.id
                    if src in bound_in_loop or src == alias:
                        continue
                    d = single_def(fn, src)
                    if d is None or id(d) in inside or not _is_container(d) and not isinstance(d, (ast.DictComp, ast.ListComp, ast.SetComp)):
                        continue
                    n += 1
                    writes = [x for x in ast.walk(loop) if
                              (isinstance(x, ast.Call) and isinstance(x.func, ast.Attribute) and isinstance(x.func.value, ast.Name) and x.func.value.id == alias and
                               x.func.attr in ('update', 'append', 'add', 'extend', 'setdefault', 'pop', 'clear', 'insert')) or
                              (isinstance(x, ast.Subscript) and isinstance(x.ctx, (ast.Store, ast.Del)) and isinstance(x.value, ast.Name) and x.value.id == alias)]
                    ck.ob(rule, module.loc(st), not writes, '{}: `{} = {}` in a loop names the one object built before the loop; the loop then writes into it ({}): every iteration '
                          'sees what the previous ones left'.format(qual, alias, src, u(writes[0])[:50] if writes else 'no write'),
                          key='{}|{}|{}|{}'.format(rule, rel, qual, alias))
    ck.ob(rule, rels[0] if rels else '-', True, 'per-iteration names for a container built outside the loop: {} examined'.format(n), key=rule + '|scan|' + ','.join(rels))


ONE_SHOT_BUILTINS = {'map', 'filter', 'zip', 'iter', 'reversed', 'enumerate'}
ONE_SHOT_MODULES = {'itertools'}


def _one_shot_expr(e, module):
    """Is `e` an expression whose value can be walked only once?"""
    if isinstance(e, ast.GeneratorExp):
        return True
    if isinstance(e, ast.Call):
        f = e.func
        if isinstance(f, ast.Name) and f.id in ONE_SHOT_BUILTINS:
            return True
        text = u(f)
        root = text.split('.')[0]
        if root in ONE_SHOT_MODULES:
            return True
        imported = getattr(module, 'imports', {}) or {}
        origin = imported.get(root)
        if origin and str(origin[0]).lstrip('.').split('.')[0] in ONE_SHOT_MODULES:
            return True
    return False


def no_reused_one_shot_iterator(ck, rels, rule='ITER-local-one-shot'):
    """A local bound once to a one-shot iterator (generator expression, map/filter/zip/reversed/enumerate, anything from itertools) is walked at most once, and
    not inside a loop the binding is outside of: the second walk silently finds nothing (seeds C14_q: the warning text consumed what the removal loop then
    walked; C03_q: groupby sub-iterators stored for later)."""
    n = 0
    for rel in rels:
        module = ck.index.mod(rel)
        for qual, fn in module.functions.items():
            stores = {}
            for x in walk_local(fn):
                if isinstance(x, ast.Assign) and len(x.targets) == 1 and isinstance(x.targets[0], ast.Name):
                    stores.setdefault(x.targets[0].id, []).append(x)
            # every other binding form of the name (loop target, with, aug-assignment, parameter) disqualifies it
            other = {t.id for x in walk_local(fn) for t in ast.walk(x) if isinstance(t, ast.Name) and isinstance(t.ctx, ast.Store)
                     and not (isinstance(x, ast.Assign) and len(x.targets) == 1 and x.targets[0] is t)}
            for name, sts in stores.items():
                if len(sts) != 1 or name in param_names(fn) or not _one_shot_expr(sts[0].value, module):
                    continue
                st = sts[0]
                rebound_elsewhere = [t for x in walk_local(fn) for t in ast.walk(x) if isinstance(t, ast.Name) and t.id == name and isinstance(t.ctx, ast.Store) and t is not st.targets[0]]
                if rebound_elsewhere:
                    continue
                loads = [t for t in walk_local(fn) if isinstance(t, ast.Name) and t.id == name and isinstance(t.ctx, ast.Load)]
                parents = {}
                for p in ast.walk(fn):
                    for c in ast.iter_child_nodes(p):
                        parents[id(c)] = p
                if any(isinstance(parents.get(id(t)), ast.Call) and call_name(parents[id(t)]) == 'next' for t in loads):
                    continue        # stepped by hand: the iterator protocol is the point
                n += 1

                def loops_between(t):
                    out, p = [], parents.get(id(t))
                    while p is not None and p is not fn:
                        if isinstance(p, (ast.For, ast.While)) and not any(s is st for s in ast.walk(p)):
                            # the iterable of a for statement is evaluated once, its body repeatedly
                            if not (isinstance(p, ast.For) and any(t is y for y in ast.walk(p.iter))):
                                out.append(p)
                        if isinstance(p, (ast.ListComp, ast.SetComp, ast.DictComp, ast.GeneratorExp)) and not any(t is y for y in ast.walk(p.generators[0].iter)):
                            out.append(p)
                        if isinstance(p, (ast.Lambda, ast.FunctionDef)):
                            out.append(p)
                        p = parents.get(id(p))
                    return out
                repeated = [t for t in loads if loops_between(t)]
                # two walks on exclusive branches of one `if` are one walk
                def branch_path(t):
                    path, c, p = [], t, parents.get(id(t))
                    while p is not None and p is not fn:
                        if isinstance(p, ast.If):
                            path.append((id(p), 'body' if any(c is s for s in p.body) else 'orelse' if any(c is s for s in p.orelse) else 'test'))
                        c, p = p, parents.get(id(p))
                    return path
                def exclusive(a, b):
                    pa, pb = dict(branch_path(a)), dict(branch_path(b))
                    return any(k in pb and {pa[k], pb[k]} == {'body', 'orelse'} for k in pa)
                clash = [(a, b) for i, a in enumerate(loads) for b in loads[i + 1:] if not exclusive(a, b)]
                ok = not repeated and not clash
                why = 'walked again inside a loop / comprehension / closure at line {}'.format(repeated[0].lineno) if repeated else \
                    'walked at lines {} and {}'.format(clash[0][0].lineno, clash[0][1].lineno) if clash else 'walked once'
                ck.ob(rule, module.loc(st), ok, '{}: `{}` is bound to a one-shot iterator (`{}`) -- {}'.format(qual, name, u(st.value)[:60], why),
                      key='{}|{}|{}|{}'.format(rule, rel, qual, name))
            # the groups handed out by itertools.groupby are views on the one underlying iterator: a group is gone as soon as the next one is asked for,
            # so it is walked (or materialised) inside its own iteration, once, and never put away for later
            for loop in [l for l in walk_local(fn) if isinstance(l, ast.For)]:
                src = loop.iter
                if isinstance(src, ast.Name):
                    src = single_def(fn, src.id)
                if not (isinstance(src, ast.Call) and u(src.func).split('.')[-1] == 'groupby'):
                    continue
                if not (isinstance(loop.target, ast.Tuple) and len(loop.target.elts) == 2 and isinstance(loop.target.elts[1], ast.Name)):
                    continue
                g = loop.target.elts[1].id
                n += 1
                parents = {}
                for p in ast.walk(loop):
                    for c in ast.iter_child_nodes(p):
                        parents[id(c)] = p
                body_nodes = [x for st_ in loop.body + loop.orelse for x in ast.walk(st_)]
                rebinds = [x for x in body_nodes if isinstance(x, ast.Assign) and len(x.targets) == 1 and u(x.targets[0]) == g]
                loads = [t for t in body_nodes if isinstance(t, ast.Name) and t.id == g and isinstance(t.ctx, ast.Load)]
                if rebinds:
                    first = min(rebinds, key=lambda x: (x.lineno, x.col_offset))
                    materialised = isinstance(first.value, ast.Call) and call_name(first.value) in ('list', 'tuple', 'sorted', 'set', 'frozenset', 'dict') and \
                        any(t is y for t in loads for y in ast.walk(first.value)) and first in loop.body
                    before = [t for t in loads if (t.lineno, t.col_offset) < (first.lineno, first.col_offset)]
                    ok = materialised and not before
                    ck.ob(rule, module.loc(loop), ok, '{}: the group `{}` of a groupby is materialised before anything else walks it'.format(qual, g),
                          key='{}|{}|{}|group:{}'.format(rule, rel, qual, g))
                    continue
                consuming = ('list', 'tuple', 'sorted', 'set', 'frozenset', 'dict', 'sum', 'len', 'any', 'all', 'max', 'min', 'next')

                def consumed_now(t):
                    c, p = t, parents.get(id(t))
                    while p is not None and not isinstance(p, ast.stmt):
                        if isinstance(p, ast.Call) and (call_name(p) in consuming or call_attr(p) in ('extend', 'update', 'join')) and any(c is a for a in p.args):
                            return True
                        if isinstance(p, ast.comprehension) and p.iter is c and not isinstance(parents.get(id(p)), ast.GeneratorExp):
                            return True
                        if isinstance(p, ast.Starred):
                            return True
                        c, p = p, parents.get(id(p))
                    return isinstance(p, ast.For) and p.iter is c
                escapes = [t for t in loads if not consumed_now(t)]
                inner_loops = [t for t in loads if any(isinstance(a, (ast.For, ast.While)) and not (isinstance(a, ast.For) and any(t is y for y in ast.walk(a.iter)))
                                                       for a in _ancestors(t, parents) if a is not loop)]
                stepped = any(isinstance(parents.get(id(t)), ast.Call) and call_name(parents[id(t)]) == 'next' for t in loads)     # stepped by hand, then walked: deliberate
                ok = not escapes and (len(loads) <= 1 or stepped) and not inner_loops
                why = 'handed on without being walked at line {} (`{}`)'.format(escapes[0].lineno, u(_stmt_of(escapes[0], parents))[:60]) if escapes else \
                    'walked {} times in one iteration'.format(len(loads)) if len(loads) > 1 and not stepped else 'walked inside an inner loop' if inner_loops else 'walked once, in its own iteration'
                ck.ob(rule, module.loc(loop), ok, '{}: the group `{}` of a groupby is {}'.format(qual, g, why), key='{}|{}|{}|group:{}'.format(rule, rel, qual, g))
    ck.ob(rule, rels[0] if rels else '-', True, 'locals bound to a one-shot iterator: {} examined'.format(n), key=rule + '|scan|' + ','.join(rels))


def _ancestors(t, parents):
    p = parents.get(id(t))
    while p is not None:
        yield p
        p = parents.get(id(p))


def _stmt_of(t, parents):
    for p in _ancestors(t, parents):
        if isinstance(p, ast.stmt):
            return p
    return t


def fused_string_sites(source):
    """[(line, text)] of collection displays / argument lists made of string literals only (three or more elements) in which two literals follow each other
    without a comma: Python joins them into one string ('HIP' 'ASPP' is 'HIPASPP'), so the table silently loses two members and gains a wrong one."""
    import io
    import tokenize
    out = []
    stack = []        # frames: dict(elements=[(n_strings, only_strings)], cur_strings, cur_other, line)
    try:
        toks = list(tokenize.generate_tokens(io.StringIO(source).readline))
    except (tokenize.TokenError, IndentationError, SyntaxError):
        return out
    for tok in toks:
        if tok.type in (tokenize.NL, tokenize.COMMENT, tokenize.NEWLINE, tokenize.INDENT, tokenize.DEDENT):
            continue
        if tok.type == tokenize.OP and tok.string in '([{':
            if stack:
                stack[-1]['cur_other'] += 1
            stack.append({'elements': [], 'cur_strings': [], 'cur_other': 0, 'line': tok.start[0]})
            continue
        if tok.type == tokenize.OP and tok.string in ')]}':
            if not stack:
                continue
            fr = stack.pop()
            if fr['cur_strings'] or fr['cur_other']:
                fr['elements'].append((fr['cur_strings'], fr['cur_other'] == 0))
            els = fr['elements']
            if len(els) >= 3 and all(only for _s, only in els) and any(len(s_) >= 2 for s_, _o in els):
                fused = next(s_ for s_, _o in els if len(s_) >= 2)
                out.append((fused[0][1], ' '.join(t for t, _l in fused)))
            continue
        if not stack:
            continue
        fr = stack[-1]
        if tok.type == tokenize.OP and tok.string == ',':
            if fr['cur_strings'] or fr['cur_other']:
                fr['elements'].append((fr['cur_strings'], fr['cur_other'] == 0))
            fr['cur_strings'], fr['cur_other'] = [], 0
        elif tok.type == tokenize.STRING:
            fr['cur_strings'].append((tok.string, tok.start[0]))
        else:
            fr['cur_other'] += 1
    return out


def no_fused_strings(ck, rels, rule='TAB-fused-strings'):
    n = 0
    for rel in rels:
        module = ck.index.mod(rel)
        src = getattr(module, 'src', None)
        if src is None:
            continue
        for line, text in fused_string_sites(src):
            n += 1
            ck.ob(rule, '{}:{}'.format(rel, line), False, 'a table of string literals has two of them fused by a missing comma: {} is one string'.format(text[:60]),
                  key='{}|{}|{}'.format(rule, rel, text[:40]))
    ck.ob(rule, rels[0] if rels else '-', True, 'tables of string literals with two literals fused by a missing comma in {} module(s): {}'.format(len(rels), n),
          key=rule + '|scan')


# nx.get_node_attributes(G, name) returns only the nodes that *have* the attribute, whatever its value (an empty list, 0, None count as having it): it is neither
# "every node" nor "the nodes where the attribute is set to something".  The three uses of the pinned tree, each read and triaged:
ATTRIBUTE_VIEW_SITES = {
    ('vermouth/processors/do_mapping.py', 'apply_block_mapping', 'resname'): 'only the set of values is used, for a log message',
    ('vermouth/rcsu/go_vs_includes.py', 'VirtualSiteCreator.add_virtual_sites', 'charge_group'): 'maximum over the atoms that have a charge group',
    ('bin/martinize2', 'entry', '_old_resid'): 'restores the residue number of exactly the atoms that carry an old one',
}


def attribute_view_sites(ck, rels, rule='PROV-attribute-view'):
    """A selection of nodes "by attribute" through nx.get_node_attributes / get_edge_attributes selects by *presence*: a new use in place of a loop with
    `.get(..)` changes which nodes are selected (seeds C17_r, C01_w).  New uses are reported; the triaged ones are listed above."""
    n = 0
    for rel in rels:
        module = ck.index.mod(rel)
        for qual, fn in module.functions.items():
            for c in walk_local(fn):
                if isinstance(c, ast.Call) and (call_name(c) or '').split('.')[-1] in ('get_node_attributes', 'get_edge_attributes') and len(c.args) >= 2:
                    attr = try_fold(c.args[1], default=None)
                    n += 1
                    reason = ATTRIBUTE_VIEW_SITES.get((rel, qual, attr))
                    ck.ob(rule, module.loc(c), reason is not None, '{}: `{}` selects the nodes that *have* the attribute{}'.format(
                        qual, u(c)[:70], ' -- triaged: ' + reason if reason else ' (also with an empty / zero / None value, and not the others): not a triaged use -- a loop with '
                        '`.get(..)` that this replaces selected by the value'), key='{}|{}|{}|{}'.format(rule, rel, qual, attr))
    ck.ob(rule, rels[0] if rels else '-', True, 'selections by attribute presence (nx.get_node_attributes): {} site(s), all triaged'.format(n), key=rule + '|scan|' + ','.join(rels))


# the two lazy adoptions of the pinned tree, read and triaged (both are documented behaviour of a container that takes a property over from its first member)
LAZY_TRIAGE = {
    ('vermouth/molecule.py', 'Molecule.merge_molecule', 'self.nrexcl'): 'an empty molecule without nrexcl adopts the nrexcl of the first molecule merged into it (C01 / C12 rules read this)',
    ('vermouth/system.py', 'System.add_molecule', 'self.force_field'): 'a system without force field adopts the one of the first molecule added; a later molecule with another force field is refused',
}


def no_lazy_instance_memo(ck, rels, rule='STATE-no-memory'):
    """`if self.x is None: self.x = <computed from this call's argument>` in a method other than __init__ keeps what the *first* call computed: every later call on
    the same object (another molecule, another system) silently works with the first one's value (seeds C18_y, C18_z: the residue graph and the system of the Go
    bias processor).  Reported unless the guarded value does not depend on the call's arguments."""
    n = 0
    for rel in rels:
        module = ck.index.mod(rel)
        for qual, fn in module.functions.items():
            if '.' not in qual or qual.endswith('__init__') or not param_names(fn) or param_names(fn)[0] != 'self':
                continue
            params = set(param_names(fn)[1:])
            for st, cond, env in stmts_with_env(fn, lambda s_: isinstance(s_, ast.Assign) and len(s_.targets) == 1 and isinstance(s_.targets[0], ast.Attribute) and
                                                isinstance(s_.targets[0].value, ast.Name) and s_.targets[0].value.id == 'self'):
                target = u(st.targets[0])
                guarded = any((k[0] == 'Is' and target in k[1:] and 'None' in k[1:]) or (k[0] == 'truth' and k[1] == target) for k in flow.atoms_of(cond))
                if not guarded:
                    continue
                uses_args = any(isinstance(x, ast.Name) and x.id in params for x in ast.walk(flow.subst(st.value, env)))
                n += 1
                reason = LAZY_TRIAGE.get((rel, qual, target))
                ck.ob(rule, module.loc(st), not uses_args or reason is not None, '{}: `{}` is set only while it is still unset{}'.format(
                    qual, u(st)[:70], ' -- triaged: ' + reason if reason else ' -- from this call\'s argument(s): later calls with another argument keep the first value' if uses_args else ' (from nothing call-specific)'),
                    key='{}|lazy|{}|{}|{}'.format(rule, rel, qual, target))
    ck.ob(rule, rels[0] if rels else '-', True, 'instance attributes set lazily (`if self.x is None: self.x = ..`) outside __init__: {} site(s)'.format(n),
          key=rule + '|lazy-scan|' + ','.join(rels))
