"""Checker validation: every rule set must fire on scratch variants of the
current tree with one instance broken, and stay silent on behaviour-preserving
variants.  Variants are textual edits applied to a scratch copy of the analysed
sources (made under $TMPDIR, removed immediately)."""
import contextlib
import io
import json
import multiprocessing
import os
import random
import shutil
import sys
import tempfile

from .index import SourceIndex, AnalysisError
from .report import Check, finish, VERIF


def load_variants(prop):
    """selftest/variants_<prop>.py defines VARIANTS = [dict(name, expect='fire'|'silent', key=<substring of the
    obligation key expected to fail>, edits=[dict(file, old, new)])]."""
    path = os.path.join(VERIF, 'selftest', 'variants_' + prop.lower() + '.py')
    if not os.path.isfile(path):
        return []
    scope = {}
    with open(path) as handle:
        exec(compile(handle.read(), path, 'exec'), scope)  # pylint: disable=exec-used
    return scope['VARIANTS']


def make_scratch(root, dest):
    """Copy the analysed sources (non-test *.py of the package, the CLI)."""
    for dirpath, dirnames, filenames in os.walk(os.path.join(root, 'vermouth')):
        dirnames[:] = [d for d in dirnames if d not in ('tests', '__pycache__', 'data')]
        for name in filenames:
            if name.endswith('.py'):
                src = os.path.join(dirpath, name)
                rel = os.path.relpath(src, root)
                os.makedirs(os.path.dirname(os.path.join(dest, rel)), exist_ok=True)
                shutil.copyfile(src, os.path.join(dest, rel))
    os.makedirs(os.path.join(dest, 'bin'), exist_ok=True)
    shutil.copyfile(os.path.join(root, 'bin', 'martinize2'), os.path.join(dest, 'bin', 'martinize2'))
    os.makedirs(os.path.join(dest, 'vermouth', 'data'), exist_ok=True)
    src = os.path.join(root, 'vermouth', 'data')
    for name in os.listdir(src):
        if name.endswith('.py'):
            shutil.copyfile(os.path.join(src, name), os.path.join(dest, 'vermouth', 'data', name))


def seeded_variants(prop):
    """Verified seeded changes stored under /verif/seeded/<prop>_*/ are replayed as broken variants."""
    out = []
    base = os.path.join(VERIF, 'seeded')
    if not os.path.isdir(base):
        return out
    for name in sorted(os.listdir(base)):
        meta = os.path.join(base, name, 'meta.json')
        patch = os.path.join(base, name, 'patch.diff')
        if not os.path.isfile(patch) or not os.path.isfile(meta):
            continue
        try:
            with open(meta) as handle:
                info = json.load(handle)
        except ValueError:
            continue
        props = info.get('caught_by_properties') or [info.get('property')]
        if prop in props:
            out.append({'name': 'seeded:' + name, 'expect': 'fire', 'patch': patch, 'edits': []})
    # behaviour-preserving refactorings written by independent sub-agents: must be silent for every property anchored in the files they touch
    from .rules import ANCHOR_FILES
    bdir = os.path.join(base, 'benign')
    known_alarms = {}
    try:
        with open(os.path.join(bdir, 'KNOWN_ALARMS.json')) as handle:
            known_alarms = json.load(handle)
    except (OSError, ValueError):
        pass
    for name in sorted(os.listdir(bdir)) if os.path.isdir(bdir) else []:
        patch = os.path.join(bdir, name, 'patch.diff')
        if not os.path.isfile(patch):
            continue
        with open(patch) as handle:
            files = [l.split(' b/', 1)[1].strip() for l in handle if l.startswith('diff --git ') and ' b/' in l]
        # helpers every property stands on (call closure, rules/helpers.py, the shared processor base): a refactoring there is replayed for every property
        shared_ground = ('vermouth/utils.py', 'vermouth/selectors.py', 'vermouth/processors/processor.py', 'vermouth/graph_utils.py', 'vermouth/system.py')
        if not (name.split('_')[0] == prop or any(f in ANCHOR_FILES.get(prop, []) for f in files) or any(f in shared_ground for f in files)):
            continue
        if prop in known_alarms.get(name, []):
            continue
        out.append({'name': 'benign:' + name, 'expect': 'silent', 'patch': patch, 'edits': []})
    return out


def run_variant(job):
    prop, variant, root = job
    from . import rules
    tmp = tempfile.mkdtemp(prefix='vstat_variant_')
    try:
        make_scratch(root, tmp)
        if variant.get('patch'):
            import subprocess
            proc = subprocess.run(['git', 'apply', '--unsafe-paths', '--directory=' + tmp, variant['patch']], cwd='/', capture_output=True, text=True)
            if proc.returncode != 0:
                proc = subprocess.run(['patch', '-p1', '-s', '-f', '-d', tmp, '-i', variant['patch']], capture_output=True, text=True)
            if proc.returncode != 0:
                return (variant['name'], 'not-applicable', 'patch does not apply to the current tree', [])
        for edit in variant['edits']:
            path = os.path.join(tmp, edit['file'])
            with open(path, encoding='utf-8') as handle:
                text = handle.read()
            if text.count(edit['old']) != 1:
                return (variant['name'], 'not-applicable', 'anchor text occurs {} times in {}'.format(text.count(edit['old']), edit['file']), [])
            text = text.replace(edit['old'], edit['new'])
            try:
                import ast as _ast
                import warnings as _w
                with _w.catch_warnings():
                    _w.simplefilter('ignore')
                    _ast.parse(text, filename=path)
            except SyntaxError as err:
                return (variant['name'], 'broken-variant', str(err), [])
            with open(path, 'w', encoding='utf-8') as handle:
                handle.write(text)
        buf = []
        try:
            index = SourceIndex(tmp)
            check = Check(prop, index, tier='quick')
            rules.get(prop)(check)
            status = finish(check, out=buf.append)
        except AnalysisError as err:
            # as in vcheck: what the rules found before one of them lost its anchor is a finding
            failed_ = [o for o in check.obligations if not o['ok']] if 'check' in dir() else []
            try:
                status_ = finish(check, out=buf.append) if failed_ else 2
            except Exception:  # pylint: disable=broad-except
                status_ = 2
            if status_ == 1:
                lines_ = [b for b in buf if b.startswith('FAILED-OBLIGATION')]
                return (variant['name'], 'fired', '', [{'rule': o['rule'], 'key': o['key']} for o in failed_ if any(o['rule'] in l for l in lines_)])
            return (variant['name'], 'analysis-error', str(err), [])
        failed = [o for o in check.obligations if not o['ok']]
        lines = [b for b in buf if b.startswith('FAILED-OBLIGATION')]
        return (variant['name'], 'fired' if status == 1 else 'silent', '', [{'rule': o['rule'], 'key': o['key']} for o in failed
                                                                           if any(o['rule'] in l for l in lines)])
    finally:
        shutil.rmtree(tmp, ignore_errors=True)
        for name in os.listdir(os.path.join(VERIF, 'replay')) if os.path.isdir(os.path.join(VERIF, 'replay')) else []:
            pass


def run_for(prop, seed=0, root='/repo', out=print, jobs=None):
    variants = load_variants(prop) + seeded_variants(prop)
    if not variants:
        out('SELFTEST property={} no variants registered'.format(prop))
        return 0
    rnd = random.Random(seed)
    order = list(variants)
    rnd.shuffle(order)
    work = [(prop, v, root) for v in order]
    with multiprocessing.Pool(min(jobs or os.cpu_count() or 4, len(work))) as pool:
        results = pool.map(run_variant, work)
    bad = 0
    killed = survived = silent_ok = na = 0
    by_name = {v['name']: v for v in variants}
    rows = []
    for name, outcome, info, failed in results:
        v = by_name[name]
        expect = v['expect']
        verdict = 'ok'
        if outcome == 'not-applicable':
            na += 1
            verdict = 'skipped'
        elif expect == 'fire':
            want = v.get('key')
            hit = outcome == 'fired' and (want is None or any(want in f['key'] for f in failed))
            if hit:
                killed += 1
            else:
                survived += 1
                bad += 1
                verdict = 'MISSED'
        else:
            if outcome == 'silent':
                silent_ok += 1
            else:
                bad += 1
                verdict = 'FALSE-ALARM'
        rows.append({'variant': name, 'expect': expect, 'outcome': outcome, 'verdict': verdict, 'info': info,
                     'failed': [f['key'] for f in failed][:5]})
        if verdict not in ('ok', 'skipped'):
            out('SELFTEST-{} property={} variant={} outcome={} {} failed={}'.format(verdict, prop, name, outcome, info, [f['key'] for f in failed][:5]))
    out('SELFTEST property={} variants={} broken-fired={} broken-missed={} benign-silent={} skipped={} problems={}'.format(
        prop, len(results), killed, survived, silent_ok, na, bad))
    # append to the evidence file written by the main run
    path = os.path.join(VERIF, 'evidence', prop + '.json')
    if root == '/repo' and os.path.isfile(path):
        with open(path) as handle:
            ev = json.load(handle)
        ev['coverage']['selftest'] = {'variants': len(results), 'broken_variants_fired': killed, 'broken_variants_missed': survived,
                                      'benign_variants_silent': silent_ok, 'skipped_not_applicable': na, 'rows': rows}
        with open(path, 'w') as handle:
            json.dump(ev, handle, indent=1, default=str)
    if bad:
        out('ANALYSIS-ERROR property={} checker self-test failed on {} variant(s): the rule set is not trustworthy on this tree'.format(prop, bad))
        return 2
    return 0
