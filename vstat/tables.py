"""Decorator-registered dispatch tables read as data:
@SectionLineParser.section_parser(*names, **kwargs) stacks."""
import ast

from .index import u
from .fold import try_fold


class Registration:
    def __init__(self, names, kwargs, method, lineno, cls):
        self.names = names
        self.kwargs = kwargs
        self.method = method
        self.lineno = lineno
        self.cls = cls

    def __repr__(self):
        return 'Registration({}, {}, {})'.format(self.names, self.kwargs, self.method)


def registrations(cls_node):
    """All section_parser registrations of a class body."""
    out = []
    for item in cls_node.body:
        if not isinstance(item, ast.FunctionDef):
            continue
        for deco in item.decorator_list:
            if isinstance(deco, ast.Call) and isinstance(deco.func, ast.Attribute) and deco.func.attr == 'section_parser':
                names = tuple(try_fold(a, default='<?' + u(a) + '>') for a in deco.args)
                kwargs = {k.arg: try_fold(k.value, default='<?' + u(k.value) + '>') for k in deco.keywords}
                out.append(Registration(names, kwargs, item.name, deco.lineno, cls_node.name))
    return out


def class_literal(cls_node, name, module=None):
    for item in cls_node.body:
        if isinstance(item, ast.Assign) and len(item.targets) == 1 and isinstance(item.targets[0], ast.Name) \
                and item.targets[0].id == name:
            return item.value
    return None


def self_attr_store(cls_node, attr, method='__init__'):
    """Value assigned to self.<attr> in the given method."""
    for item in cls_node.body:
        if isinstance(item, ast.FunctionDef) and item.name == method:
            for node in ast.walk(item):
                if isinstance(node, ast.Assign) and len(node.targets) == 1 and isinstance(node.targets[0], ast.Attribute) \
                        and u(node.targets[0]) == 'self.' + attr:
                    return node.value
    return None
