"""Un-hoist: names that did not exist in the pinned tree and only give a name to an expression are substituted back.

The rules read the functions of the package in the spelling of the pinned tree.  The commonest behaviour-preserving edits that do not
rename or extract anything *introduce a name*: a loop-invariant lookup is bound to a local, a tuple is unpacked into named parts instead
of being indexed, a lambda becomes a small nested function, a repeated literal becomes a module constant, `for k in d: ... d[k]` becomes
`for k, v in d.items()`.  This pass undoes those, in the parsed tree only, before any rule runs:

  1. a nested `def f(args): return expr` that the pinned function does not have as a def becomes `f = lambda args: expr`;
  2. `if c: x = A else: x = B` for a *new* local x becomes `x = A if c else B` (so that step 3 applies), and `x = A if c else B` as a whole
     statement for a local the pinned function has becomes the if/else statement (the spelling the flow rules read);
     `if k in m: x = m[k] else: x = d` becomes `x = m.get(k, d)` (and the conditional-expression form likewise);
  3. a new local with exactly one binding `x = E` (or `a, b = E` with E a plain name / attribute chain), all of whose uses are dominated by
     the binding, whose expression cannot change value between the binding and the last use (no name of E rebound, nothing E reads
     mutated -- see `_stable`), is replaced by E at its uses and the binding removed; `a, b = f(..)` directly followed by the only use
     `g(a, b)` becomes `g(*f(..))`;
  4. `for k, v in X.items()` with v new becomes `for k in X` with `X[k]` for v (statement loops and comprehension generators); a local that the
     pinned function binds to a single-generator comprehension and this one starts empty and fills in the loop that follows is put
     back into the comprehension;
  5. a new module-level name bound once to a literal is replaced by the literal;
  6. the parameters of a lambda are renamed to those of the pinned lambda of the same function with the same body up to parameter names.

"New" is decided against the inventory of the pinned tree (vstat/roles.json: locals per function; vstat/pinned.json: module-level names and
lambdas per function; both written by tools/mkroles.py).  Nothing is done in functions the pinned tree does not have.  Every rewrite is an
equivalence under the stated conditions, so a tree on which a property holds keeps holding it and a tree on which it does not keeps failing:
the rules see the same behaviour in the spelling they were written against.
"""
import ast
import copy
import json
import os

from .index import FUNC_TYPES

HERE = os.path.dirname(os.path.abspath(__file__))
PINNED = os.path.join(HERE, 'pinned.json')
_STORE = None

PURE_CALLS = {'get', 'endswith', 'startswith', 'split', 'strip', 'lstrip', 'rstrip', 'lower', 'upper', 'keys', 'values', 'items', 'len', 'min', 'max',
              'sorted', 'tuple', 'list', 'set', 'frozenset', 'dict', 'str', 'int', 'float', 'abs', 'isinstance', 'getattr', 'hasattr', 'bool', 'sum',
              'any', 'all', 'zip', 'enumerate', 'range', 'format', 'join', 'index', 'count', 'copy', 'isfinite', 'isnan', 'sign', 'type', 'id',
              'neighbors', 'degree', 'has_edge', 'has_node', 'number_of_nodes', 'number_of_edges', 'find', 'rfind', 'partition', 'rpartition',
              'splitlines', 'title', 'isdigit', 'isalpha', 'most_common', 'union', 'intersection', 'difference', 'issubset', 'issuperset', 'reversed'}
MUTATORS = {'append', 'add', 'update', 'pop', 'remove', 'clear', 'extend', 'insert', 'setdefault', 'discard', 'sort', 'reverse', 'popitem',
            'add_node', 'add_edge', 'remove_node', 'remove_edge', 'add_nodes_from', 'add_edges_from', 'remove_nodes_from', 'remove_edges_from',
            'add_weighted_edges_from', 'merge_molecule', 'add_interaction', 'remove_interaction', 'add_or_replace_interaction',
            'remove_matching_interaction', 'add_molecule', 'popleft', 'appendleft', 'subtract', 'difference_update', 'intersection_update',
            'symmetric_difference_update', 'relabel_nodes', 'write', 'writelines', 'close', 'seek', 'truncate'}


def stored():
    global _STORE
    if _STORE is None:
        try:
            with open(PINNED) as handle:
                _STORE = json.load(handle)
        except OSError:
            _STORE = {}
    return _STORE


def _chain_text(node):
    """Text of a Name / Attribute / Subscript chain (None for anything else)."""
    cur = node
    while isinstance(cur, (ast.Attribute, ast.Subscript)):
        cur = cur.value
    if isinstance(cur, ast.Name):
        return ast.unparse(node)
    return None


def _is_alias(node):
    """A Name / Attribute / Subscript chain whose subscripts are constants or plain names: it denotes an existing object."""
    if _chain_text(node) is None:
        return False
    cur = node
    while isinstance(cur, (ast.Attribute, ast.Subscript)):
        if isinstance(cur, ast.Subscript):
            sl = cur.slice
            parts = sl.elts if isinstance(sl, ast.Tuple) else [sl]
            if not all(isinstance(p, (ast.Constant, ast.Name)) for p in parts):
                return False
        cur = cur.value
    return True


def _prefixes(node):
    """All chain prefixes of a chain expression, outermost first (the node itself included)."""
    out = []
    cur = node
    while isinstance(cur, (ast.Attribute, ast.Subscript, ast.Name)):
        out.append(ast.unparse(cur))
        if isinstance(cur, ast.Name):
            break
        cur = cur.value
    return out


def _blocks(node):
    for fld in ('body', 'orelse', 'finalbody'):
        sub = getattr(node, fld, None)
        if isinstance(sub, list) and sub and isinstance(sub[0], ast.stmt):
            yield sub
    for h in getattr(node, 'handlers', []) or []:
        yield h.body
    for c in getattr(node, 'cases', []) or []:
        yield c.body


def _find_block(fn, stmt):
    """(block list, index) of a statement inside fn."""
    stack = [fn]
    while stack:
        node = stack.pop()
        for block in _blocks(node):
            for i, st in enumerate(block):
                if st is stmt:
                    return block, i
                stack.append(st)
    return None, None


def _pure(expr):
    """Evaluating the expression has no effect and needs nothing but reading."""
    for n in ast.walk(expr):
        if isinstance(n, (ast.Yield, ast.YieldFrom, ast.Await, ast.NamedExpr, ast.Starred)):
            return False
        if isinstance(n, ast.Call):
            name = n.func.attr if isinstance(n.func, ast.Attribute) else n.func.id if isinstance(n.func, ast.Name) else None
            if name not in PURE_CALLS:
                return False
    return True


def _reads(expr):
    """(free names, chains whose replacement would change an alias, chains whose content the value is computed from)."""
    names = {n.id for n in ast.walk(expr) if isinstance(n, ast.Name) and isinstance(n.ctx, ast.Load)}
    bound = set()
    for n in ast.walk(expr):
        if isinstance(n, ast.Lambda):
            bound |= {a.arg for a in n.args.posonlyargs + n.args.args + n.args.kwonlyargs}
        elif isinstance(n, ast.comprehension):
            bound |= {t.id for t in ast.walk(n.target) if isinstance(t, ast.Name)}
    names -= bound
    identity, content = set(), set()
    if _is_alias(expr):
        identity |= set(_prefixes(expr)[1:])        # strict prefixes: `molecule.nodes`, `molecule` for `molecule.nodes[idx]`
    else:
        for n in ast.walk(expr):
            if isinstance(n, (ast.Attribute, ast.Subscript, ast.Name)) and _chain_text(n) is not None:
                content |= set(_prefixes(n))
    return names, identity, content


def _stable(expr, between, own_names=(), ignore=()):
    """Nothing in the statements `between` can change what `expr` evaluates to.

    An alias (`x = molecule.nodes[idx]`) keeps naming the same object unless a name it reads is rebound, the slot itself is stored to, or a
    strict prefix is replaced / mutated through a mutator method; writing *into* the aliased object (`molecule.nodes[idx]['k'] = v`) does
    not matter.  A computed value (`len(x)`, `d.get(k, 0)`, `s.endswith('t')`) changes when anything it reads is stored into or mutated."""
    names, identity, content = _reads(expr)
    alias_text = ast.unparse(expr) if _is_alias(expr) else None
    for st in between:
        for n in ast.walk(st):
            if isinstance(n, ast.Name) and isinstance(n.ctx, (ast.Store, ast.Del)) and n.id in names:
                return False
            if isinstance(n, FUNC_TYPES) and n.name in names:
                return False
            if isinstance(n, (ast.Attribute, ast.Subscript)) and isinstance(n.ctx, (ast.Store, ast.Del)):
                target = _chain_text(n)
                container = _chain_text(n.value)
                if target is None:
                    continue
                if alias_text is not None:
                    if target == alias_text or target in identity or container in identity:
                        return False
                elif target in content or container in content:
                    return False
            if isinstance(n, ast.Call) and isinstance(n.func, ast.Attribute) and n.func.attr in MUTATORS and id(n) not in ignore:
                recv = _chain_text(n.func.value)
                if recv is None:
                    continue
                if alias_text is not None:
                    if recv in identity:
                        return False
                elif recv in content:
                    return False
    return True


def _rooted_in(text, names):
    head = text.split('.', 1)[0].split('[', 1)[0]
    return head in names


class _Subst(ast.NodeTransformer):
    def __init__(self, mapping, skip=()):
        self.mapping = mapping
        self.count = 0
        self.skip = skip

    def visit_Name(self, n):  # noqa: N802
        if isinstance(n.ctx, ast.Load) and n.id in self.mapping and id(n) not in self.skip:
            self.count += 1
            return ast.copy_location(copy.deepcopy(self.mapping[n.id]), n)
        return n


COMPS = (ast.ListComp, ast.SetComp, ast.DictComp, ast.GeneratorExp)


def _comp_bound(fn):
    """ids of the Name nodes (stores and loads) that belong to a comprehension's own variables."""
    out = set()
    for comp in ast.walk(fn):
        if isinstance(comp, COMPS):
            own = {t.id for g in comp.generators for t in ast.walk(g.target) if isinstance(t, ast.Name)}
            first_iter = comp.generators[0].iter
            outer = {id(n) for n in ast.walk(first_iter)}
            for n in ast.walk(comp):
                if isinstance(n, ast.Name) and n.id in own and id(n) not in outer:
                    out.add(id(n))
    return out


def _stores_of(fn):
    """{name: [binding statement-or-node, ...]} for every Name bound anywhere in fn (nested scopes included; the variables of a comprehension
    are its own and do not count)."""
    out = {}
    comp_own = _comp_bound(fn)
    for n in ast.walk(fn):
        if isinstance(n, ast.Name) and isinstance(n.ctx, (ast.Store, ast.Del)):
            if id(n) in comp_own:
                continue
            out.setdefault(n.id, []).append(n)
        elif isinstance(n, FUNC_TYPES + (ast.ClassDef,)) and n is not fn:
            out.setdefault(n.name, []).append(n)
        elif isinstance(n, ast.ExceptHandler) and n.name:
            out.setdefault(n.name, []).append(n)
        elif isinstance(n, (ast.Import, ast.ImportFrom)):
            for a in n.names:
                out.setdefault((a.asname or a.name).split('.')[0], []).append(n)
        elif isinstance(n, ast.arg):
            out.setdefault(n.arg, []).append(n)
        elif isinstance(n, (ast.Global, ast.Nonlocal)):
            for name in n.names:
                out.setdefault(name, []).append(n)
                out.setdefault(name, []).append(n)
    return out


def _loads_of(fn, name):
    comp_own = _comp_bound(fn)
    return [n for n in ast.walk(fn) if isinstance(n, ast.Name) and n.id == name and isinstance(n.ctx, ast.Load) and id(n) not in comp_own]


def _contains(root, node):
    return any(n is node for n in ast.walk(root))


# ----------------------------------------------------------------------------------------------------------------- step 1
def _defs_to_lambdas(fn, pinned_locals):
    done = []
    for node in list(ast.walk(fn)):
        for block in _blocks(node):
            for i, st in enumerate(block):
                if not isinstance(st, ast.FunctionDef) or st is fn or st.decorator_list:
                    continue
                if 'def FOCUS_' in (pinned_locals.get(st.name) or []):
                    continue
                body = st.body
                if body and isinstance(body[0], ast.Expr) and isinstance(body[0].value, ast.Constant) and isinstance(body[0].value.value, str):
                    body = body[1:]
                if len(body) != 1 or not isinstance(body[0], ast.Return) or body[0].value is None:
                    continue
                if any(isinstance(n, (ast.Yield, ast.YieldFrom, ast.Await)) for n in ast.walk(st)):
                    continue
                args = copy.deepcopy(st.args)
                for a in args.posonlyargs + args.args + args.kwonlyargs + [x for x in (args.vararg, args.kwarg) if x]:
                    a.annotation = None
                new = ast.Assign(targets=[ast.Name(id=st.name, ctx=ast.Store())], value=ast.Lambda(args=args, body=body[0].value), lineno=st.lineno, col_offset=st.col_offset)
                block[i] = ast.fix_missing_locations(ast.copy_location(new, st))
                done.append(st.name)
    return done


# ----------------------------------------------------------------------------------------------------------------- step 2
def _get_form(test, then, other):
    """`m.get(k, d)` for  (k in m, m[k], d)  /  (k not in m, d, m[k]);  None when the three do not have that shape."""
    if not (isinstance(test, ast.Compare) and len(test.ops) == 1 and isinstance(test.ops[0], (ast.In, ast.NotIn))):
        return None
    if isinstance(test.ops[0], ast.NotIn):
        then, other = other, then
    key, mapping = test.left, test.comparators[0]
    if isinstance(then, ast.Subscript) and ast.unparse(then.value) == ast.unparse(mapping) and ast.unparse(then.slice) == ast.unparse(key) \
            and _chain_text(mapping) is not None and _pure(other):
        return ast.Call(func=ast.Attribute(value=copy.deepcopy(mapping), attr='get', ctx=ast.Load()), args=[copy.deepcopy(key), copy.deepcopy(other)], keywords=[])
    return None


class _Replace(ast.NodeTransformer):
    def __init__(self, match, new):
        self.match, self.new, self.count = match, new, 0

    def visit(self, node):
        if self.match(node):
            self.count += 1
            return copy.deepcopy(self.new)
        return self.generic_visit(node)


def _merge_arms(test, then, other):
    """`if k in m: T = f(m[k]) else: T = f(d)`  ->  f(m.get(k, d)): the two arms differ only in `m[k]` against a pure default."""
    if not (isinstance(test, ast.Compare) and len(test.ops) == 1 and isinstance(test.ops[0], (ast.In, ast.NotIn))):
        return None
    if isinstance(test.ops[0], ast.NotIn):
        then, other = other, then
    key, mapping = test.left, test.comparators[0]
    if _chain_text(mapping) is None:
        return None
    slot = ast.unparse(ast.Subscript(value=mapping, slice=key, ctx=ast.Load()))
    is_slot = lambda n: isinstance(n, ast.Subscript) and isinstance(n.ctx, ast.Load) and ast.unparse(n) == slot  # noqa: E731
    if not any(is_slot(n) for n in ast.walk(then)) or any(is_slot(n) for n in ast.walk(other)):
        return None
    for cand in ast.walk(other):
        if not isinstance(cand, ast.expr) or isinstance(cand, (ast.Load, ast.Store)) or not _pure(cand) or cand is other and False:
            continue
        if isinstance(cand, ast.Name) and cand.id in ('max', 'min', 'len'):
            continue
        got = ast.Call(func=ast.Attribute(value=copy.deepcopy(mapping), attr='get', ctx=ast.Load()), args=[copy.deepcopy(key), copy.deepcopy(cand)], keywords=[])
        a = _Replace(is_slot, got).visit(copy.deepcopy(then))
        b = _Replace(lambda n, cand=cand: n is cand, got)
        # identity is lost by deepcopy: replace by position instead
        other_copy = copy.deepcopy(other)
        originals = list(ast.walk(other))
        copies = list(ast.walk(other_copy))
        target = copies[[k for k, n in enumerate(originals) if n is cand][0]]
        b = _Replace(lambda n, target=target: n is target, got).visit(other_copy)
        if ast.unparse(a) == ast.unparse(b):
            return ast.fix_missing_locations(a)
    return None


class _GetForm(ast.NodeTransformer):
    def __init__(self):
        self.count = 0

    def visit_IfExp(self, node):  # noqa: N802
        self.generic_visit(node)
        new = _get_form(node.test, node.body, node.orelse)
        if new is not None:
            self.count += 1
            return ast.fix_missing_locations(ast.copy_location(new, node))
        return node


def _single_assign(block):
    if len(block) == 1 and isinstance(block[0], ast.Assign) and len(block[0].targets) == 1:
        return block[0]
    return None


def _conditional_assignments(fn, pinned_locals, params):
    done = []
    changed = True
    while changed:
        changed = False
        stores = _stores_of(fn)
        for node in list(ast.walk(fn)):
            for block in _blocks(node):
                for i, st in enumerate(block):
                    if isinstance(st, ast.If) and st.orelse:
                        a, b = _single_assign(st.body), _single_assign(st.orelse)
                        if a is not None and b is not None and ast.unparse(a.targets[0]) == ast.unparse(b.targets[0]):
                            target = a.targets[0]
                            got = _get_form(st.test, a.value, b.value)
                            if got is not None:
                                block[i] = ast.fix_missing_locations(ast.copy_location(ast.Assign(targets=[target], value=got, lineno=st.lineno), st))
                                done.append('get:' + ast.unparse(target))
                                changed = True
                                continue
                            merged = _merge_arms(st.test, a.value, b.value)
                            if merged is not None:
                                block[i] = ast.fix_missing_locations(ast.copy_location(ast.Assign(targets=[target], value=merged, lineno=st.lineno), st))
                                done.append('get-merge:' + ast.unparse(target))
                                changed = True
                                continue
                            if isinstance(target, ast.Name) and target.id not in pinned_locals and target.id not in params and len(stores.get(target.id, [])) == 2:
                                new = ast.Assign(targets=[target], value=ast.IfExp(test=st.test, body=a.value, orelse=b.value), lineno=st.lineno)
                                block[i] = ast.fix_missing_locations(ast.copy_location(new, st))
                                done.append('ifexp:' + target.id)
                                changed = True
                                continue
                    if isinstance(st, ast.Assign) and len(st.targets) == 1 and isinstance(st.value, ast.IfExp) and isinstance(st.targets[0], ast.Name) \
                            and (st.targets[0].id in pinned_locals or st.targets[0].id in params):
                        e = st.value
                        new = ast.If(test=e.test, body=[ast.Assign(targets=[copy.deepcopy(st.targets[0])], value=e.body, lineno=st.lineno)],
                                     orelse=[ast.Assign(targets=[copy.deepcopy(st.targets[0])], value=e.orelse, lineno=st.lineno)])
                        block[i] = ast.fix_missing_locations(ast.copy_location(new, st))
                        done.append('if:' + st.targets[0].id)
                        changed = True
    g = _GetForm()
    g.visit(fn)
    if g.count:
        done.append('get-expr*{}'.format(g.count))
    return done


# ----------------------------------------------------------------------------------------------------------------- step 3
def _unhoist_locals(fn, pinned_locals, params):
    done = []
    progress = True
    while progress:
        progress = False
        stores = _stores_of(fn)
        for node in list(ast.walk(fn)):
            if progress:
                break
            for block in _blocks(node):
                if progress:
                    break
                for i, st in enumerate(block):
                    if not (isinstance(st, ast.Assign) and len(st.targets) == 1):
                        continue
                    target = st.targets[0]
                    if isinstance(target, ast.Name):
                        names = [target.id]
                    elif isinstance(target, ast.Tuple) and all(isinstance(e, ast.Name) for e in target.elts):
                        names = [e.id for e in target.elts]
                    else:
                        continue
                    if any(n in pinned_locals or n in params or len(stores.get(n, [])) != 1 for n in names) or len(set(names)) != len(names):
                        continue
                    expr = st.value
                    rest = block[i + 1:]
                    uses = {n: _loads_of(fn, n) for n in names}
                    if any(not any(_contains(r, use) for r in rest) for n in names for use in uses[n]):
                        continue            # a use the binding does not dominate
                    all_uses = [use for n in names for use in uses[n]]
                    last = max((k for k, r in enumerate(rest) if any(_contains(r, use) for use in all_uses)), default=-1)
                    between = rest[:last + 1]
                    if between and isinstance(between[-1], (ast.If, ast.For)):
                        tail = between[-1]
                        head = tail.test if isinstance(tail, ast.If) else tail.iter
                        if all(_contains(head, use) for use in all_uses if _contains(tail, use)):
                            # the test / the iterable is evaluated before anything in the arms runs
                            between = between[:-1] + [ast.Expr(value=head)]
                    if between and isinstance(between[-1], (ast.Assign, ast.AugAssign, ast.AnnAssign)) and between[-1].value is not None:
                        tail = between[-1]
                        if all(_contains(tail.value, use) for use in all_uses if _contains(tail, use)):
                            # the value is evaluated before this statement stores anything
                            between = between[:-1] + [ast.Expr(value=tail.value)]
                    tuple_target = isinstance(target, ast.Tuple)
                    if tuple_target and isinstance(expr, ast.Call) and last == 0 and all(len(uses[n]) == 1 for n in names):
                        # a, b = f(..) ; g(a, b)  ->  g(*f(..))
                        call = None
                        for c in ast.walk(rest[0]):
                            if isinstance(c, ast.Call) and [id(a) for a in c.args] == [id(uses[n][0]) for n in names] and not c.keywords:
                                call = c
                        header_only = not isinstance(rest[0], (ast.For, ast.While, ast.If, ast.With, ast.Try)) or \
                            (call is not None and not any(_contains(s, call) for blk in _blocks(rest[0]) for s in blk))
                        if call is not None and header_only:
                            call.args = [ast.Starred(value=expr, ctx=ast.Load())]
                            ast.fix_missing_locations(call)
                            del block[i]
                            if not block:
                                block.append(ast.copy_location(ast.Pass(), st))
                            done.append('star:' + ','.join(names))
                            progress = True
                            break
                        continue
                    if tuple_target and _chain_text(expr) is None:
                        continue
                    fresh = isinstance(expr, (ast.Dict, ast.List, ast.Set, ast.ListComp, ast.SetComp, ast.DictComp, ast.GeneratorExp)) or \
                        (isinstance(expr, ast.Call) and (expr.func.attr if isinstance(expr.func, ast.Attribute) else getattr(expr.func, 'id', None)) in FRESH_CALLS)
                    if fresh and any(_loops_between(fn, st, use) for use in all_uses):
                        # a new object per evaluation: moving it into a loop (or a comprehension / lambda) the binding is outside of would make one object many
                        continue
                    if not _is_alias(expr) and (any(_mutated_through(fn, n) for n in names) or (fresh and len(all_uses) > 1)):
                        # the name holds an object of its own (a container being filled, a generator consumed once): not just a name for an expression
                        continue
                    if not isinstance(expr, (ast.Lambda, ast.Constant)) and any(
                            isinstance(sc, (ast.Lambda,) + FUNC_TYPES) and sc is not fn and any(_contains(sc, use) for use in all_uses) for sc in ast.walk(fn)):
                        continue            # used inside a closure: evaluated whenever that is called, not here
                    if isinstance(expr, ast.Lambda):
                        ok = True
                    elif _pure(expr):
                        # a call whose arguments contain a use does its own mutation only after that use was evaluated
                        wraps = {id(c) for c in ast.walk(between[-1]) if isinstance(c, ast.Call) and
                                 all(any(_contains(a, use) for a in list(c.args) + [k.value for k in c.keywords]) for use in all_uses if _contains(between[-1], use))} if between else set()
                        ok = _stable(expr, between, set(names), wraps)
                    else:
                        # an arbitrary call evaluated once: only moved into the very next statement, where it is evaluated once and first
                        ok = not tuple_target and len(all_uses) == 1 and last == 0 and not isinstance(rest[0], (ast.For, ast.While, ast.With, ast.Try, ast.If)) \
                            and _first_evaluated(rest[0], all_uses[0])
                    if not ok:
                        continue
                    if tuple_target:
                        mapping = {n: ast.Subscript(value=copy.deepcopy(expr), slice=ast.Constant(value=k), ctx=ast.Load()) for k, n in enumerate(names)}
                    else:
                        mapping = {names[0]: expr}
                    sub = _Subst(mapping, _comp_bound(fn))
                    for k, r in enumerate(rest):
                        rest[k] = sub.visit(r)
                    block[i + 1:] = rest
                    del block[i]
                    if not block:
                        block.append(ast.copy_location(ast.Pass(), st))
                    ast.fix_missing_locations(fn)
                    done.append(','.join(names))
                    progress = True
                    break
    return done


def _loops_between(fn, binding, use):
    """The use sits in a loop / comprehension / lambda / nested function that does not contain the binding statement."""
    chain = []

    def find(node, path):
        if node is use:
            chain.extend(path)
            return True
        for child in ast.iter_child_nodes(node):
            if find(child, path + [node]):
                return True
        return False
    find(fn, [])
    for anc in chain:
        if isinstance(anc, (ast.For, ast.While, ast.ListComp, ast.SetComp, ast.DictComp, ast.GeneratorExp, ast.Lambda) + FUNC_TYPES) and anc is not fn:
            if not _contains(anc, binding):
                return True
    return False


FRESH_CALLS = {'dict', 'list', 'set', 'sorted', 'defaultdict', 'OrderedDict', 'Counter', 'deque', 'copy', 'deepcopy', 'split', 'splitlines', 'iter', 'zip', 'enumerate',
               'map', 'filter', 'reversed', 'items', 'keys', 'values', 'array', 'zeros', 'ones', 'bytearray'}


def _mutated_through(fn, name):
    """The object the name holds is written into through that name (`n[k] = v`, `n.attr = v`, `del n[k]`, `n.append(..)`, `n += ..`)."""
    for n in ast.walk(fn):
        if isinstance(n, (ast.Subscript, ast.Attribute)) and isinstance(n.ctx, (ast.Store, ast.Del)):
            cur = n
            while isinstance(cur, (ast.Subscript, ast.Attribute)):
                cur = cur.value
            if isinstance(cur, ast.Name) and cur.id == name:
                return True
        if isinstance(n, ast.Call) and isinstance(n.func, ast.Attribute) and n.func.attr in MUTATORS:
            cur = n.func.value
            while isinstance(cur, (ast.Subscript, ast.Attribute)):
                cur = cur.value
            if isinstance(cur, ast.Name) and cur.id == name:
                return True
        if isinstance(n, ast.AugAssign) and isinstance(n.target, ast.Name) and n.target.id == name:
            return True
    return False


def _first_evaluated(stmt, use):
    """`use` is the first thing the simple statement evaluates that could have an effect (so moving a call there keeps the order)."""
    for n in ast.walk(stmt):
        if n is use:
            return True
        if isinstance(n, (ast.Call, ast.Yield, ast.Await)):
            # ast.walk is breadth-first: a call seen before the use may be its ancestor (fine) or an earlier sibling (not fine)
            if not _contains(n, use):
                return False
    return False


# ----------------------------------------------------------------------------------------------------------------- step 4
def _items_loops(fn, pinned_locals, params):
    done = []
    stores = _stores_of(fn)

    def candidate(target, it, want=1):
        if not (isinstance(target, ast.Tuple) and len(target.elts) == 2 and all(isinstance(e, ast.Name) for e in target.elts)):
            return None
        if not (isinstance(it, ast.Call) and isinstance(it.func, ast.Attribute) and it.func.attr == 'items' and not it.args and not it.keywords):
            return None
        if _chain_text(it.func.value) is None:
            return None
        key, val = target.elts
        if val.id in pinned_locals or val.id in params or len(stores.get(val.id, [])) != want:
            return None
        return key, val, it.func.value

    for node in list(ast.walk(fn)):
        if isinstance(node, ast.For):
            got = candidate(node.target, node.iter)
            if got is None:
                continue
            key, val, mapping = got
            loads = _loads_of(fn, val.id)
            if any(not any(_contains(s, use) for s in node.body) for use in loads):
                continue
            value = ast.Subscript(value=copy.deepcopy(mapping), slice=ast.Name(id=key.id, ctx=ast.Load()), ctx=ast.Load())
            if not _stable(mapping, node.body, {val.id}) or any(isinstance(n, ast.Name) and n.id == key.id and isinstance(n.ctx, ast.Store) for s in node.body for n in ast.walk(s)):
                continue
            sub = _Subst({val.id: value}, _comp_bound(fn))
            node.body = [sub.visit(s) for s in node.body]
            node.target = ast.Name(id=key.id, ctx=ast.Store())
            node.iter = mapping
            done.append('items:' + val.id)
        elif isinstance(node, (ast.ListComp, ast.SetComp, ast.DictComp, ast.GeneratorExp)):
            for k, gen in enumerate(node.generators):
                got = candidate(gen.target, gen.iter, want=0)
                if got is None:
                    continue
                key, val, mapping = got
                value = ast.Subscript(value=copy.deepcopy(mapping), slice=ast.Name(id=key.id, ctx=ast.Load()), ctx=ast.Load())
                sub = _Subst({val.id: value})
                gen.ifs = [sub.visit(c) for c in gen.ifs]
                for later in node.generators[k + 1:]:
                    later.iter = sub.visit(later.iter)
                    later.ifs = [sub.visit(c) for c in later.ifs]
                if isinstance(node, ast.DictComp):
                    node.key = sub.visit(node.key)
                    node.value = sub.visit(node.value)
                else:
                    node.elt = sub.visit(node.elt)
                gen.target = ast.Name(id=key.id, ctx=ast.Store())
                gen.iter = mapping
                done.append('items:' + val.id)
    if done:
        ast.fix_missing_locations(fn)
    return done


def _setdefault_stores(fn):
    """`X.setdefault(K, <empty container>)[J] = W`  ->  `if K not in X: X[K] = <empty container>` ; `X[K][J] = W`  (the same for `.append(..)` / `.add(..)`
    / `.update(..)` called on the setdefault result as a statement)."""
    done = 0
    for node in list(ast.walk(fn)):
        for block in _blocks(node):
            i = 0
            while i < len(block):
                st = block[i]
                call = None
                if isinstance(st, ast.Assign) and len(st.targets) == 1 and isinstance(st.targets[0], ast.Subscript) and isinstance(st.targets[0].value, ast.Call):
                    call = st.targets[0].value
                elif isinstance(st, ast.Expr) and isinstance(st.value, ast.Call) and isinstance(st.value.func, ast.Attribute) and isinstance(st.value.func.value, ast.Call) \
                        and st.value.func.attr in ('append', 'add', 'update', 'extend'):
                    call = st.value.func.value
                if isinstance(st, ast.Expr) and isinstance(st.value, ast.Call) and isinstance(st.value.func, ast.Attribute) and st.value.func.attr == 'setdefault' \
                        and len(st.value.args) == 2 and not st.value.keywords and _is_alias(st.value.func.value) and _pure(st.value.args[0]) and _pure(st.value.args[1]) \
                        and not _empty_container(st.value.args[1]):
                    # `R.setdefault(K, V)` with the result discarded  ->  `R[K] = R.get(K, V)`
                    recv, key, val = st.value.func.value, st.value.args[0], st.value.args[1]
                    new_st = ast.Assign(targets=[ast.Subscript(value=copy.deepcopy(recv), slice=copy.deepcopy(key), ctx=ast.Store())],
                                        value=ast.Call(func=ast.Attribute(value=copy.deepcopy(recv), attr='get', ctx=ast.Load()), args=[copy.deepcopy(key), val], keywords=[]),
                                        lineno=st.lineno)
                    block[i] = ast.fix_missing_locations(ast.copy_location(new_st, st))
                    done += 1
                    i += 1
                    continue
                if call is not None and isinstance(call.func, ast.Attribute) and call.func.attr == 'setdefault' and len(call.args) == 2 and not call.keywords \
                        and _empty_container(call.args[1]) and _is_alias(call.func.value) and _pure(call.args[0]):
                    recv, key, empty = call.func.value, call.args[0], call.args[1]
                    slot = ast.Subscript(value=copy.deepcopy(recv), slice=copy.deepcopy(key), ctx=ast.Load())
                    guard = ast.If(test=ast.Compare(left=copy.deepcopy(key), ops=[ast.NotIn()], comparators=[copy.deepcopy(recv)]),
                                   body=[ast.Assign(targets=[ast.Subscript(value=copy.deepcopy(recv), slice=copy.deepcopy(key), ctx=ast.Store())], value=empty, lineno=st.lineno)], orelse=[])
                    if isinstance(st, ast.Assign):
                        st.targets[0].value = slot
                    else:
                        st.value.func.value = slot
                    block.insert(i, ast.fix_missing_locations(ast.copy_location(guard, st)))
                    ast.fix_missing_locations(st)
                    done += 1
                    i += 1
                i += 1
    return ['setdefault-store*{}'.format(done)] if done else []


def _defaultdict_back(fn, pinned_locals):
    """A local the pinned function makes a `defaultdict(factory)` and this one makes a plain dict filled behind `if k not in x: x[k] = factory()` guards gets
    its pinned spelling back: the definition becomes the defaultdict, the guards go (and `return x` is `return dict(x)` again where the pinned one was)."""
    done = []
    for name, shapes in pinned_locals.items():
        factory = next((sh[len('Assign: FOCUS_ = defaultdict('):-1] for sh in shapes if sh.startswith('Assign: FOCUS_ = defaultdict(') and sh.endswith(')')), None)
        if factory not in ('set', 'list', 'dict'):
            continue
        defs = [st for st in ast.walk(fn) if isinstance(st, ast.Assign) and len(st.targets) == 1 and isinstance(st.targets[0], ast.Name) and st.targets[0].id == name]
        if len(defs) != 1 or _empty_container(defs[0].value) != 'dict':
            continue
        guards = []
        for node in ast.walk(fn):
            for block in _blocks(node):
                for st in block:
                    if isinstance(st, ast.If) and not st.orelse and len(st.body) == 1 and isinstance(st.test, ast.Compare) and len(st.test.ops) == 1 \
                            and isinstance(st.test.ops[0], ast.NotIn) and isinstance(st.test.comparators[0], ast.Name) and st.test.comparators[0].id == name:
                        b = st.body[0]
                        if isinstance(b, ast.Assign) and len(b.targets) == 1 and isinstance(b.targets[0], ast.Subscript) and isinstance(b.targets[0].value, ast.Name) \
                                and b.targets[0].value.id == name and ast.unparse(b.targets[0].slice) == ast.unparse(st.test.left) and _empty_container(b.value) == factory:
                            guards.append((block, st))
        if not guards:
            continue
        for block, st in guards:
            block.remove(st)
            if not block:
                block.append(ast.copy_location(ast.Pass(), st))
        defs[0].value = ast.copy_location(ast.Call(func=ast.Name(id='defaultdict', ctx=ast.Load()), args=[ast.Name(id=factory, ctx=ast.Load())], keywords=[]), defs[0].value)
        if 'Return: return dict(FOCUS_)' in shapes:
            for r in ast.walk(fn):
                if isinstance(r, ast.Return) and isinstance(r.value, ast.Name) and r.value.id == name:
                    r.value = ast.Call(func=ast.Name(id='dict', ctx=ast.Load()), args=[r.value], keywords=[])
        if 'Assign: FOCUS_ = dict(FOCUS_)' in shapes and not any(
                isinstance(st, ast.Assign) and isinstance(st.value, ast.Call) and ast.unparse(st.value) == 'dict({})'.format(name) for st in ast.walk(fn)):
            # put the conversion back right after the (outermost) loop that fills the table
            for node in ast.walk(fn):
                for block in _blocks(node):
                    for k, st in enumerate(block):
                        if isinstance(st, (ast.For, ast.While)) and any(isinstance(x, ast.Name) and x.id == name for x in ast.walk(st)) and node is fn:
                            block.insert(k + 1, ast.copy_location(ast.Assign(targets=[ast.Name(id=name, ctx=ast.Store())],
                                                                              value=ast.Call(func=ast.Name(id='dict', ctx=ast.Load()), args=[ast.Name(id=name, ctx=ast.Load())], keywords=[]),
                                                                              lineno=st.lineno), st))
                            break
                    else:
                        continue
                    break
                else:
                    continue
                break
        ast.fix_missing_locations(fn)
        done.append('defaultdict:' + name)
    return done


# ----------------------------------------------------------------------------------------------------------------- step 4b
def _empty_container(node):
    if isinstance(node, (ast.List, ast.Set)) and not node.elts:
        return 'list' if isinstance(node, ast.List) else 'set'
    if isinstance(node, ast.Dict) and not node.keys:
        return 'dict'
    if isinstance(node, ast.Call) and isinstance(node.func, ast.Name) and node.func.id in ('list', 'set', 'dict') and not node.args and not node.keywords:
        return node.func.id
    return None


def _pinned_spelling(shapes):
    """'comp' when the pinned function binds the local to a comprehension, 'loop' when it starts it empty and fills it, None otherwise."""
    comp = any(sh.startswith('Assign: FOCUS_ = ') and ' for ' in sh and sh[len('Assign: FOCUS_ = '):][:1] in '[{' for sh in shapes)
    empty = any(sh in ('Assign: FOCUS_ = []', 'Assign: FOCUS_ = set()', 'Assign: FOCUS_ = {}', 'Assign: FOCUS_ = list()', 'Assign: FOCUS_ = dict()') for sh in shapes)
    if comp and not empty:
        return 'comp'
    if empty and not comp:
        return 'loop'
    return None


def _loops_and_comprehensions(fn, pinned_locals):
    """A local the pinned function builds with a comprehension but this one starts empty and fills in the loop that follows is put back into the
    comprehension.  (The reverse direction is left to the rules: a pinned loop usually does more than fill the container, so there is no pinned
    spelling to go back to; the branch is kept, disabled, for reference.)"""
    done = []
    for node in list(ast.walk(fn)):
        for block in _blocks(node):
            i = 0
            while i < len(block):
                st = block[i]
                if not (isinstance(st, ast.Assign) and len(st.targets) == 1 and isinstance(st.targets[0], ast.Name)):
                    i += 1
                    continue
                name = st.targets[0].id
                want = _pinned_spelling(pinned_locals.get(name) or [])
                kind = _empty_container(st.value)
                if want == 'comp' and kind is not None and i + 1 < len(block) and isinstance(block[i + 1], ast.For) and not block[i + 1].orelse:
                    loop = block[i + 1]
                    conds = []
                    body = loop.body
                    while len(body) == 1 and isinstance(body[0], ast.If) and not body[0].orelse:
                        conds.append(body[0].test)
                        body = body[0].body
                    fill = body[0] if len(body) == 1 else None
                    new = None
                    uses_elsewhere = sum(1 for x in ast.walk(loop) if isinstance(x, ast.Name) and x.id == name)
                    if isinstance(fill, ast.Expr) and isinstance(fill.value, ast.Call) and isinstance(fill.value.func, ast.Attribute) and fill.value.func.attr in ('append', 'add') \
                            and isinstance(fill.value.func.value, ast.Name) and fill.value.func.value.id == name and len(fill.value.args) == 1 and uses_elsewhere == 1 \
                            and ((kind == 'list') == (fill.value.func.attr == 'append')) and kind in ('list', 'set'):
                        gen = ast.comprehension(target=loop.target, iter=loop.iter, ifs=conds, is_async=0)
                        new = (ast.ListComp if kind == 'list' else ast.SetComp)(elt=fill.value.args[0], generators=[gen])
                    elif isinstance(fill, ast.Assign) and len(fill.targets) == 1 and isinstance(fill.targets[0], ast.Subscript) and isinstance(fill.targets[0].value, ast.Name) \
                            and fill.targets[0].value.id == name and uses_elsewhere == 1 and kind == 'dict':
                        gen = ast.comprehension(target=loop.target, iter=loop.iter, ifs=conds, is_async=0)
                        new = ast.DictComp(key=fill.targets[0].slice, value=fill.value, generators=[gen])
                    if new is not None:
                        block[i:i + 2] = [ast.fix_missing_locations(ast.copy_location(ast.Assign(targets=[st.targets[0]], value=new, lineno=st.lineno), st))]
                        done.append('loop->comp:' + name)
                        continue
                elif False and want == 'loop' and isinstance(st.value, (ast.ListComp, ast.SetComp, ast.DictComp)) and len(st.value.generators) == 1 \
                        and not any(isinstance(x, ast.Name) and x.id == name for x in ast.walk(st.value)):
                    comp = st.value
                    gen = comp.generators[0]
                    if isinstance(comp, ast.ListComp):
                        init = ast.List(elts=[], ctx=ast.Load())
                        fill = ast.Expr(value=ast.Call(func=ast.Attribute(value=ast.Name(id=name, ctx=ast.Load()), attr='append', ctx=ast.Load()), args=[comp.elt], keywords=[]))
                    elif isinstance(comp, ast.SetComp):
                        init = ast.Call(func=ast.Name(id='set', ctx=ast.Load()), args=[], keywords=[])
                        fill = ast.Expr(value=ast.Call(func=ast.Attribute(value=ast.Name(id=name, ctx=ast.Load()), attr='add', ctx=ast.Load()), args=[comp.elt], keywords=[]))
                    else:
                        init = ast.Dict(keys=[], values=[])
                        fill = ast.Assign(targets=[ast.Subscript(value=ast.Name(id=name, ctx=ast.Load()), slice=comp.key, ctx=ast.Store())], value=comp.value, lineno=st.lineno)
                    body = [fill]
                    for cond in reversed(gen.ifs):
                        body = [ast.If(test=cond, body=body, orelse=[])]
                    loop = ast.For(target=gen.target, iter=gen.iter, body=body, orelse=[], lineno=st.lineno)
                    block[i:i + 1] = [ast.fix_missing_locations(ast.copy_location(ast.Assign(targets=[st.targets[0]], value=init, lineno=st.lineno), st)),
                                      ast.fix_missing_locations(ast.copy_location(loop, st))]
                    done.append('comp->loop:' + name)
                    i += 2
                    continue
                i += 1
    return done


# ----------------------------------------------------------------------------------------------------------------- step 5
def _literal(node):
    if isinstance(node, ast.Constant):
        return True
    if isinstance(node, ast.UnaryOp) and isinstance(node.op, (ast.USub, ast.UAdd)):
        return _literal(node.operand)
    if isinstance(node, ast.Tuple):
        return all(_literal(e) for e in node.elts)
    if isinstance(node, ast.Call) and isinstance(node.func, ast.Name) and node.func.id == 'frozenset' and len(node.args) <= 1 and not node.keywords:
        return all(isinstance(a, (ast.Tuple, ast.List, ast.Set)) and all(_literal(e) for e in a.elts) for a in node.args)
    return False


def _display(node):
    """A literal, or a container display / constructor call made of literals only (a read-only table)."""
    if _literal(node):
        return True
    if isinstance(node, ast.Name) and node.id in ('str', 'int', 'float', 'bool', 'bytes', 'complex', 'tuple', 'list', 'dict', 'set', 'frozenset', 'object'):
        return True
    if isinstance(node, (ast.List, ast.Set, ast.Tuple)):
        return all(_display(e) for e in node.elts)
    if isinstance(node, ast.Dict):
        return all(k is not None and _display(k) for k in node.keys) and all(_display(v) for v in node.values)
    if isinstance(node, ast.Call) and not node.keywords and len(node.args) <= 1:
        name = node.func.attr if isinstance(node.func, ast.Attribute) else getattr(node.func, 'id', None)
        if name in ('OrderedDict', 'dict', 'frozenset', 'set', 'tuple', 'list'):
            return all(_display(a) for a in node.args)
    return False


READ_ONLY_METHODS = {'get', 'items', 'keys', 'values', 'index', 'count', 'copy', 'union', 'intersection', 'difference', 'issubset', 'issuperset', 'isdisjoint'}
READ_ONLY_CALLS = {'len', 'sorted', 'list', 'tuple', 'set', 'frozenset', 'dict', 'enumerate', 'zip', 'any', 'all', 'max', 'min', 'sum', 'iter', 'reversed', 'map', 'filter'}


def _read_only_uses(tree, name, binding):
    """Every use of a module-level table is a plain read (subscript, iteration, membership, read-only method, argument of a builtin that only reads):
    it is never given another name or handed to code that could write into it."""
    parents = {}
    for node in ast.walk(tree):
        for child in ast.iter_child_nodes(node):
            parents[id(child)] = node
    for n in ast.walk(tree):
        if not (isinstance(n, ast.Name) and n.id == name and isinstance(n.ctx, ast.Load)):
            continue
        p = parents.get(id(n))
        if isinstance(p, ast.Subscript) and p.value is n and isinstance(p.ctx, ast.Load):
            continue
        if isinstance(p, (ast.For, ast.comprehension)) and p.iter is n:
            continue
        if isinstance(p, ast.Compare) and n in p.comparators and all(isinstance(o, (ast.In, ast.NotIn)) for o in p.ops):
            continue
        if isinstance(p, ast.Attribute) and p.value is n and p.attr in READ_ONLY_METHODS and isinstance(parents.get(id(p)), ast.Call) and parents[id(p)].func is p:
            continue
        if isinstance(p, ast.Call) and n in p.args and isinstance(p.func, ast.Name) and p.func.id in READ_ONLY_CALLS:
            continue
        return False
    return True


def _module_constants(module, pinned_names, roles=None):
    """A new module-level name bound once to a literal or a read-only table of literals: a function of the pinned tree that has a local bound to the very
    same value gets that local back (`name = <value>` at its top, uses renamed); elsewhere the value is written in place of the name."""
    done = []
    tree = module.tree
    roles = roles or {}
    for st in list(tree.body):
        if not (isinstance(st, ast.Assign) and len(st.targets) == 1 and isinstance(st.targets[0], ast.Name)):
            continue
        name = st.targets[0].id
        if name in pinned_names or name.startswith('__') or not _display(st.value):
            continue
        bindings = [n for n in ast.walk(tree) if (isinstance(n, ast.Name) and n.id == name and isinstance(n.ctx, (ast.Store, ast.Del)))
                    or (isinstance(n, ast.arg) and n.arg == name) or (isinstance(n, (ast.Global, ast.Nonlocal)) and name in n.names)
                    or (isinstance(n, FUNC_TYPES + (ast.ClassDef,)) and n.name == name)]
        if len(bindings) != 1:
            continue
        if not _literal(st.value) and (_mutated_through(tree, name) or not _read_only_uses(tree, name, st)):
            continue
        shape = 'Assign: FOCUS_ = ' + ast.unparse(st.value)
        count = 0
        for qual, fn in list(module.functions.items()):
            if not any(isinstance(n, ast.Name) and n.id == name for n in ast.walk(fn)):
                continue
            parent_is_function = any(isinstance(a, FUNC_TYPES) for a in module.ancestors(fn))
            if parent_is_function:
                continue        # handled as part of the enclosing function
            local = next((loc for loc, shapes in (roles.get(qual) or {}).items() if shape in shapes), None)
            taken = {n.id for n in ast.walk(fn) if isinstance(n, ast.Name)} | {a.arg for a in ast.walk(fn) if isinstance(a, ast.arg)}
            if local is not None and local not in taken:
                for n in ast.walk(fn):
                    if isinstance(n, ast.Name) and n.id == name:
                        n.id = local
                pos = 1 if fn.body and isinstance(fn.body[0], ast.Expr) and isinstance(fn.body[0].value, ast.Constant) and isinstance(fn.body[0].value.value, str) else 0
                fn.body.insert(pos, ast.copy_location(ast.Assign(targets=[ast.Name(id=local, ctx=ast.Store())], value=copy.deepcopy(st.value), lineno=fn.lineno), fn.body[pos] if len(fn.body) > pos else fn))
                count += 1
        # exported names (used from other modules) cannot be seen here; what is left of the name in this module is replaced by the value,
        # the binding itself is kept (harmless) so that importers still resolve it
        sub = _Subst({name: st.value})
        for k, other in enumerate(tree.body):
            if other is not st:
                tree.body[k] = sub.visit(other)
        if sub.count or count:
            done.append(name)
    if done:
        ast.fix_missing_locations(tree)
        module.reindex()
    return done


# ----------------------------------------------------------------------------------------------------------------- step 6
def _lambda_shape(lam):
    params = [a.arg for a in lam.args.posonlyargs + lam.args.args + lam.args.kwonlyargs]
    mapping = {p: '_p{}'.format(k) for k, p in enumerate(params)}
    clone = copy.deepcopy(lam)
    for n in ast.walk(clone):
        if isinstance(n, ast.Name) and n.id in mapping:
            n.id = mapping[n.id]
        elif isinstance(n, ast.arg) and n.arg in mapping:
            n.arg = mapping[n.arg]
    return ast.unparse(clone), params


def lambda_inventory(fn):
    out = []
    for n in ast.walk(fn):
        if isinstance(n, ast.Lambda):
            shape, params = _lambda_shape(n)
            if params:
                out.append([shape, params])
    return out


def _lambda_params(fn, pinned_lambdas):
    done = []
    if not pinned_lambdas:
        return done
    by_shape = {}
    for shape, params in pinned_lambdas:
        by_shape.setdefault(shape, set()).add(tuple(params))
    for n in ast.walk(fn):
        if not isinstance(n, ast.Lambda):
            continue
        shape, params = _lambda_shape(n)
        want = by_shape.get(shape)
        if not want or tuple(params) in want or len(want) != 1:
            continue
        new = list(next(iter(want)))
        free = {x.id for x in ast.walk(n.body) if isinstance(x, ast.Name)} - set(params)
        if set(new) & free or len(new) != len(params):
            continue
        mapping = dict(zip(params, new))
        for x in ast.walk(n):
            if isinstance(x, ast.Name) and x.id in mapping:
                x.id = mapping[x.id]
            elif isinstance(x, ast.arg) and x.arg in mapping:
                x.arg = mapping[x.arg]
        done.append('lambda {}->{}'.format(','.join(params), ','.join(new)))
    return done


# ----------------------------------------------------------------------------------------------------------------- driver
def _params_of(fn):
    a = fn.args
    out = {x.arg for x in a.posonlyargs + a.args + a.kwonlyargs}
    if a.vararg:
        out.add(a.vararg.arg)
    if a.kwarg:
        out.add(a.kwarg.arg)
    return out


def normalise_module(module):
    from . import alpha, inline
    inventory = inline.stored().get(module.rel)
    pinned = stored().get(module.rel)
    if inventory is None or pinned is None:
        return {}
    roles = alpha.stored().get(module.rel, {})
    applied = {}
    consts = _module_constants(module, set(pinned.get('names', [])), roles)
    if consts:
        applied['<module>'] = consts
    known = set(inventory)
    for qual, fn in list(module.functions.items()):
        if qual not in known:
            continue
        pinned_locals = roles.get(qual, {})
        params = _params_of(fn)
        done = []
        done += ['def->lambda:' + n for n in _defs_to_lambdas(fn, pinned_locals)]
        done += _conditional_assignments(fn, pinned_locals, params)
        done += _setdefault_stores(fn)
        done += _defaultdict_back(fn, pinned_locals)
        done += _items_loops(fn, pinned_locals, params)
        done += _loops_and_comprehensions(fn, pinned_locals)
        done += _unhoist_locals(fn, pinned_locals, params)
        done += _lambda_params(fn, pinned.get('lambdas', {}).get(qual, []))
        if done:
            applied[qual] = done
    if applied:
        ast.fix_missing_locations(module.tree)
        module.reindex()
    return applied


# ----------------------------------------------------------------------------------------------------------------- self check
_MUST_KEEP = [
    ('length read before the list grows', 'n', 'def f(x):\n    n = len(x)\n    x.append(1)\n    return n\n'),
    ('container being filled', 'cache', 'def f(k, v):\n    cache = {}\n    cache[k] = v\n    return cache[k]\n'),
    ('list being filled, used once', 'out', 'def f(k):\n    out = []\n    out.append(k)\n    return out\n'),
    ('alias of a node that is then removed', 'node', 'def f(g, i):\n    node = g.nodes[i]\n    g.remove_node(i)\n    return node\n'),
    ('generator consumed twice', 'it', 'def f(b):\n    it = (a for a in b)\n    first = list(it)\n    second = list(it)\n    return first, second\n'),
    ('lookup before the slot is overwritten', 'v', 'def f(d, k):\n    v = d.get(k, 0)\n    d[k] = 5\n    return v\n'),
    ('attribute read before it is replaced', 'name', 'def f(obj):\n    name = obj.name\n    obj.name = "x"\n    return name\n'),
    ('element read before the sequence name is rebound', 'first', 'def f(seq, other):\n    first = seq[0]\n    seq = other\n    return first, seq\n'),
    ('slot read before the container item is replaced', 'row', 'def f(m, i, j):\n    row = m.rows[i]\n    m.rows[j] = None\n    return row\n'),
    ('value captured for a closure', 'n', 'def f(xs):\n    n = len(xs)\n    g = lambda: n\n    xs.append(0)\n    return g\n'),
    ('use not dominated by the binding', 't', 'def f(c, a):\n    if c:\n        t = a.b\n    return t if c else None\n'),
    ('call with an effect moved past another statement', 'r', 'def f(a, log):\n    r = a.compute()\n    log.write("x")\n    return r\n'),
    ('one template object named inside a loop', 'template', 'def f(items, extra):\n    template = {k: v for k, v in extra.items()}\n    out = []\n    for it in items:\n        node = template\n        node.update(it)\n        out.append(node)\n    return out\n'),
    ('setdefault whose result is used', 'got', 'def f(d, k):\n    got = d.setdefault(k, [])\n    got.append(1)\n    return got\n'),
    ('two-armed choice then mutated test', 'v', 'def f(d, k):\n    if k in d:\n        v = d[k]\n    else:\n        v = 0\n    d[k] = 1\n    return v\n'),
]
_MUST_REWRITE = [
    ('loop-invariant lookup', 'def f(node, keys):\n    w = node.get("w", {})\n    return [w.get(k, 1) for k in keys]\n', 'def f(node, keys):\n    return [node.get("w", {}).get(k, 1) for k in keys]\n'),
    ('tuple unpacking of a name', 'def f(pair):\n    a, b = pair\n    return a - b\n', 'def f(pair):\n    return pair[0] - pair[1]\n'),
    ('named key function', 'def f(xs):\n    def key(x):\n        return x[0]\n    return sorted(xs, key=key)\n', 'def f(xs):\n    return sorted(xs, key=lambda x: x[0])\n'),
    ('membership test instead of get', 'def f(m, k, out):\n    if k in m:\n        v = m[k]\n    else:\n        v = 0\n    out.append(v)\n', 'def f(m, k, out):\n    out.append(m.get(k, 0))\n'),
    ('items loop', 'def f(d, out):\n    for k, v in d.items():\n        out[k] = v\n', 'def f(d, out):\n    for k in d:\n        out[k] = d[k]\n'),
    ('alias written through', 'def f(g, i):\n    node = g.nodes[i]\n    node["seen"] = True\n    return node.get("x")\n', 'def f(g, i):\n    g.nodes[i]["seen"] = True\n    return g.nodes[i].get("x")\n'),
    ('setdefault then store', 'def f(d, k, j, w):\n    d.setdefault(k, {})[j] = w\n', 'def f(d, k, j, w):\n    if k not in d:\n        d[k] = {}\n    d[k][j] = w\n'),
    ('setdefault as a statement', 'def f(d, k):\n    d.setdefault(k, 0)\n', 'def f(d, k):\n    d[k] = d.get(k, 0)\n'),
    ('star call', 'def f(m):\n    r, c = idx(m)\n    for a, b in zip(r, c):\n        use(a, b)\n', 'def f(m):\n    for a, b in zip(*idx(m)):\n        use(a, b)\n'),
]


def self_check():
    """The normaliser must leave alone every binding whose removal could change behaviour, and must undo the plain spellings: run on fixed
    snippets (all locals count as new).  Returns the list of failures (empty when sound on the samples)."""
    problems = []

    def normal(src):
        tree = ast.parse(src)
        fn = tree.body[0]
        params = _params_of(fn)
        _defs_to_lambdas(fn, {})
        _conditional_assignments(fn, {}, params)
        _setdefault_stores(fn)
        _items_loops(fn, {}, params)
        _unhoist_locals(fn, {}, params)
        return ast.unparse(ast.fix_missing_locations(tree)).strip()
    for label, name, src in _MUST_KEEP:
        got = normal(src)
        kept = {n.id for n in ast.walk(ast.parse(got)) if isinstance(n, ast.Name) and isinstance(n.ctx, ast.Store)}
        if name not in kept:
            problems.append('must-keep `{}`: the binding of `{}` was substituted away: {!r}'.format(label, name, got))
    for label, src, want in _MUST_REWRITE:
        got = normal(src)
        if got != ast.unparse(ast.parse(want)).strip():
            problems.append('must-rewrite `{}`: got {!r}'.format(label, got))
    return problems
