"""Small AST helpers shared by the rule sets."""
import ast

from .index import AnalysisError, u, dotted, call_name, call_attr, base_name, walk_local, FUNC_TYPES
from . import flow
from .fold import fold, try_fold, NotConstant


def assignments_to(fn, name):
    """All value nodes assigned to plain name `name` inside fn (local walk)."""
    out = []
    for node in walk_local(fn):
        if isinstance(node, ast.Assign):
            for t in node.targets:
                if isinstance(t, ast.Name) and t.id == name:
                    out.append((node.lineno, node.col_offset, node.value))
        elif isinstance(node, ast.AnnAssign) and isinstance(node.target, ast.Name) and node.target.id == name and node.value:
            out.append((node.lineno, node.col_offset, node.value))
    return [v for _l, _c, v in sorted(out, key=lambda t: t[:2])]


def single_def(fn, name):
    vals = assignments_to(fn, name)
    return vals[0] if len(vals) == 1 else None


def param_defaults(fn):
    """{param: default node} for a FunctionDef."""
    args = fn.args
    out = {}
    pos = args.posonlyargs + args.args
    for a, d in zip(pos[len(pos) - len(args.defaults):], args.defaults):
        out[a.arg] = d
    for a, d in zip(args.kwonlyargs, args.kw_defaults):
        if d is not None:
            out[a.arg] = d
    return out


def param_names(fn):
    args = fn.args
    names = [a.arg for a in args.posonlyargs + args.args + args.kwonlyargs]
    if args.vararg:
        names.append(args.vararg.arg)
    if args.kwarg:
        names.append(args.kwarg.arg)
    return names


def stmts_with_env(fn, pred, stmts=None, env=None):
    """[(stmt, cond, env)] for statements satisfying pred, with reaching
    condition and substitution environment."""
    return flow.reaching(fn, fn.body if stmts is None else stmts, pred, env=env)


def calls_with_env(fn, pred, stmts=None, env=None):
    """[(call, stmt, cond, env)] for every Call node (anywhere inside a
    statement, not in nested defs) satisfying pred."""
    out = []

    def visit(st, cond, e):
        # only the statement's own expressions, not nested statement bodies
        for node in own_exprs(st):
            parent = {}
            for anc in ast.walk(node):
                for child in ast.iter_child_nodes(anc):
                    parent[id(child)] = anc
            for sub in ast.walk(node):
                if isinstance(sub, ast.Call) and pred(sub):
                    out.append((sub, st, flow.AND(cond, _short_circuit_condition(sub, parent, e)), dict(e)))
    flow.Reach(fn, visit).walk(fn.body if stmts is None else stmts, True, dict(env or {}))
    return out


def _short_circuit_condition(node, parent, env):
    """Condition under which `node` is evaluated when its statement runs: operands before it in an `and` are true / in an `or` false,
    the test of a conditional expression selects its arm.  (Comprehension filters and lambdas are not modelled: the condition stays True.)"""
    cond = True
    child = node
    while id(child) in parent:
        anc = parent[id(child)]
        if isinstance(anc, ast.BoolOp):
            idx = next((i for i, v in enumerate(anc.values) if v is child), 0)
            for v in anc.values[:idx]:
                f = flow.to_formula(v, env)
                cond = flow.AND(cond, f if isinstance(anc.op, ast.And) else flow.NOT(f))
        elif isinstance(anc, ast.IfExp):
            if anc.body is child:
                cond = flow.AND(cond, flow.to_formula(anc.test, env))
            elif anc.orelse is child:
                cond = flow.AND(cond, flow.NOT(flow.to_formula(anc.test, env)))
        child = anc
    return cond


def own_exprs(st):
    """Expression children of a statement that belong to the statement itself
    (tests, iterables, values), excluding nested statement lists."""
    out = []
    for fld, val in ast.iter_fields(st):
        if fld in ('body', 'orelse', 'finalbody', 'handlers'):
            continue
        if isinstance(val, ast.AST):
            if isinstance(val, ast.expr) or isinstance(val, ast.withitem):
                out.append(val)
        elif isinstance(val, list):
            for v in val:
                if isinstance(v, (ast.expr, ast.withitem, ast.keyword)):
                    out.append(v)
    if isinstance(st, FUNC_TYPES + (ast.ClassDef,)):
        return []
    return out


# signatures of the top-level functions of the analysed package, by simple name (None when two modules define the name differently);
# filled by SourceIndex so that an argument can be found whether it is passed by keyword or by position
SIGNATURES = {}


def register_signatures(index):
    SIGNATURES.clear()
    for module in index.modules.values():
        for st in module.tree.body:
            params = None
            if isinstance(st, (ast.FunctionDef, ast.AsyncFunctionDef)) and not st.args.vararg and not st.args.posonlyargs:
                params = [a.arg for a in st.args.args]
            elif isinstance(st, ast.ClassDef):
                init = next((m for m in st.body if isinstance(m, (ast.FunctionDef, ast.AsyncFunctionDef)) and m.name == '__init__'), None)
                if init is not None and not init.args.vararg and not init.args.posonlyargs and init.args.args:
                    params = [a.arg for a in init.args.args[1:]]
            if params is None:
                continue
            if st.name in SIGNATURES and SIGNATURES[st.name] != params:
                SIGNATURES[st.name] = None
            else:
                SIGNATURES[st.name] = params


def kwarg(call, name, default=None):
    """The argument a call passes for the parameter `name`: by keyword, or -- for a call of a package function by its plain name -- by position."""
    for k in call.keywords:
        if k.arg == name:
            return k.value
    fname = call.func.id if isinstance(call.func, ast.Name) else call.func.attr if isinstance(call.func, ast.Attribute) and isinstance(call.func.value, ast.Name) \
        and call.func.value.id not in ('self', 'cls') else None
    params = SIGNATURES.get(fname) if fname else None
    if params and name in params:
        pos = params.index(name)
        if pos < len(call.args) and not any(isinstance(a, ast.Starred) for a in call.args[:pos + 1]):
            return call.args[pos]
    return default


def arg_or_kw(call, pos, name, default=None):
    if len(call.args) > pos and not any(isinstance(a, ast.Starred) for a in call.args[:pos + 1]):
        return call.args[pos]
    return kwarg(call, name, default)


def is_log_call(call, levels=('warning', 'error', 'critical')):
    """LOGGER.warning(...) style call at one of the given levels."""
    return (isinstance(call, ast.Call) and isinstance(call.func, ast.Attribute)
            and call.func.attr in levels and (dotted(call.func.value) or '').split('.')[-1].upper().startswith('LOG'))


def log_type(call, module=None):
    t = kwarg(call, 'type')
    if t is None:
        return None
    return try_fold(t, module=module)


def loops_around(module, node, fn=None):
    out = []
    for anc in module.ancestors(node):
        if fn is not None and anc is fn:
            break
        if isinstance(anc, (ast.For, ast.While)):
            out.append(anc)
        if isinstance(anc, FUNC_TYPES):
            break
    return out


def in_body(parent_stmts, node_stmt):
    return any(s is node_stmt for s in parent_stmts)


def contains(node, target):
    return any(n is target for n in ast.walk(node))


def find_nodes(root, pred):
    return [n for n in ast.walk(root) if pred(n)]


def subscript_key(node):
    """String key of x['key'] / x.get('key', ...) or None."""
    if isinstance(node, ast.Subscript) and isinstance(node.slice, ast.Constant) and isinstance(node.slice.value, str):
        return node.slice.value
    if isinstance(node, ast.Call) and isinstance(node.func, ast.Attribute) and node.func.attr == 'get' and node.args \
            and isinstance(node.args[0], ast.Constant) and isinstance(node.args[0].value, str):
        return node.args[0].value
    return None


def string_keys_in(node):
    out = set()
    for n in ast.walk(node):
        k = subscript_key(n)
        if k is not None:
            out.add(k)
    return out


def func_by_content(module, pred, what):
    hits = [fn for name, fn in module.functions.items() if pred(fn)]
    if not hits:
        raise AnalysisError('anchor vanished: ' + what + ' in ' + module.rel)
    return hits


def str_constants(node):
    return [n.value for n in ast.walk(node) if isinstance(n, ast.Constant) and isinstance(n.value, str)]


def canon_comprehension(node):
    """Text of a comprehension (or of source text of one) that is indifferent to how the walk over a mapping is spelled and to the names of the
    comprehension's variables: `for k in X` with k used only as `X[k]`, `for k, v in X.items()` with k unused and `for v in X.values()` all
    become `for _cN in X.values()`; `for k, v in X.items()` with v unused becomes `for _cN in X`; variables are numbered by position."""
    import copy
    if isinstance(node, str):
        node = ast.parse(node, mode='eval').body
    node = copy.deepcopy(node)
    if not isinstance(node, (ast.ListComp, ast.SetComp, ast.DictComp, ast.GeneratorExp)):
        return ast.unparse(node)

    def later_parts(k):
        parts = []
        gen = node.generators[k]
        parts += gen.ifs
        for g in node.generators[k + 1:]:
            parts += [g.iter] + g.ifs
        parts += [node.key, node.value] if isinstance(node, ast.DictComp) else [node.elt]
        return parts

    class Sub(ast.NodeTransformer):
        def __init__(self, match, new):
            self.match, self.new = match, new

        def visit(self, n):
            if self.match(n):
                return copy.deepcopy(self.new)
            return self.generic_visit(n)

    def apply(k, match, new):
        gen = node.generators[k]
        gen.ifs = [Sub(match, new).visit(c) for c in gen.ifs]
        for g in node.generators[k + 1:]:
            g.iter = Sub(match, new).visit(g.iter)
            g.ifs = [Sub(match, new).visit(c) for c in g.ifs]
        if isinstance(node, ast.DictComp):
            node.key = Sub(match, new).visit(node.key)
            node.value = Sub(match, new).visit(node.value)
        else:
            node.elt = Sub(match, new).visit(node.elt)

    def uses(k, name):
        return [n for p in later_parts(k) for n in ast.walk(p) if isinstance(n, ast.Name) and n.id == name]

    for k, gen in enumerate(node.generators):
        it = gen.iter
        is_items = isinstance(it, ast.Call) and isinstance(it.func, ast.Attribute) and it.func.attr == 'items' and not it.args
        if is_items and isinstance(gen.target, ast.Tuple) and len(gen.target.elts) == 2 and all(isinstance(e, ast.Name) for e in gen.target.elts):
            key, val = gen.target.elts
            if not uses(k, key.id):
                gen.target = ast.Name(id=val.id, ctx=ast.Store())
                gen.iter = ast.Call(func=ast.Attribute(value=it.func.value, attr='values', ctx=ast.Load()), args=[], keywords=[])
            elif not uses(k, val.id):
                gen.target = ast.Name(id=key.id, ctx=ast.Store())
                gen.iter = it.func.value
            else:
                slot = ast.unparse(ast.Subscript(value=it.func.value, slice=ast.Name(id=key.id, ctx=ast.Load()), ctx=ast.Load()))
                apply(k, lambda n, slot=slot: isinstance(n, ast.Subscript) and ast.unparse(n) == slot, ast.Name(id=val.id, ctx=ast.Load()))
        it = gen.iter
        if isinstance(gen.target, ast.Name) and not (isinstance(it, ast.Call)):
            name = gen.target.id
            slot = ast.unparse(ast.Subscript(value=it, slice=ast.Name(id=name, ctx=ast.Load()), ctx=ast.Load()))
            all_uses = uses(k, name)
            in_slots = [n for p in later_parts(k) for s in ast.walk(p) if isinstance(s, ast.Subscript) and ast.unparse(s) == slot for n in [s.slice]]
            if all_uses and len(all_uses) == len(in_slots):
                apply(k, lambda n, slot=slot: isinstance(n, ast.Subscript) and ast.unparse(n) == slot, ast.Name(id=name, ctx=ast.Load()))
                gen.iter = ast.Call(func=ast.Attribute(value=it, attr='values', ctx=ast.Load()), args=[], keywords=[])
    counter = 0
    for k, gen in enumerate(node.generators):
        for t in [x for x in ast.walk(gen.target) if isinstance(x, ast.Name)]:
            old, new = t.id, '_c{}'.format(counter)
            counter += 1
            apply(k, lambda n, old=old: isinstance(n, ast.Name) and n.id == old, ast.Name(id=new, ctx=ast.Load()))
            t.id = new
    return ast.unparse(ast.fix_missing_locations(node))


def runs_after(fn, first, second):
    """`second` can execute after `first` in one run of fn: they are not in different arms of the same if, and `second` comes later in the block that
    holds both (a loop around both counts as "after" too)."""
    def chain(target):
        path = []

        def find(node, acc):
            for fld in ('body', 'orelse', 'finalbody', 'handlers'):
                sub = getattr(node, fld, None)
                if not isinstance(sub, list):
                    continue
                for i, st in enumerate(sub):
                    if st is target or any(n is target for n in ast.walk(st)):
                        acc.append((node, fld, i))
                        if st is target:
                            return True
                        if isinstance(st, ast.ExceptHandler) or hasattr(st, 'body'):
                            if find(st, acc):
                                return True
                        return True
            return False
        find(fn, path)
        return path
    a, b = chain(first), chain(second)
    for (na, fa, ia), (nb, fb, ib) in zip(a, b):
        if na is not nb:
            break
        if fa != fb:
            return isinstance(na, (ast.For, ast.While)) and False    # different arms of one statement: exclusive (if/else, try/except)
        if ia != ib:
            if ib > ia:
                return True
            # earlier in the block: only a loop around both brings it after
            return any(isinstance(n, (ast.For, ast.While)) for n, _f, _i in a[:a.index((na, fa, ia))])
    return False
